use vstd::prelude::*;
verus! {
pub spec const DAY: nat = 86400;
pub enum LS { Init, Locked { count: nat, reset: nat, unlock: nat }, Unlocked { count: nat, reset: nat } }
pub open spec fn cnt(s: LS) -> nat { match s { LS::Init => 0, LS::Locked { count, .. } => count, LS::Unlocked { count, .. } => count } }
pub open spec fn rst(s: LS) -> nat { match s { LS::Init => 0, LS::Locked { reset, .. } => reset, LS::Unlocked { reset, .. } => reset } }
pub open spec fn valid(s: LS) -> bool { !(s is Locked) }
pub open spec fn day(t: nat) -> nat { t / DAY }
pub open spec fn day_end(t: nat) -> nat { (t / DAY + 1) * DAY }

// (contracts/C28/softlock.toml carries these clauses on the real functions; time is in whole seconds here)
// ---- the PROPERTY clauses of the woven contracts, as predicates over (pre, inputs, post) ----
// record_failure, Password policy (time in whole seconds here; the real contract is in ns)
pub open spec fn rf_post(s: LS, ct: nat, s2: LS) -> bool {
    &&& s2 is Locked
    &&& cnt(s2) == cnt(s) + 1
    &&& s2->Locked_unlock > ct
    &&& rst(s2) == day_end(ct)
    &&& (cnt(s2) >= 100 ==> s2->Locked_unlock == rst(s2))
    &&& s2->Locked_unlock <= rst(s2)          // failure_next_state.ensures.3 (the clause repaired by the fix for F3)
}
// apply_time_step without a fresh administrator expiry (A2, A3 — A1 is NOT used)
pub open spec fn ats_post(s: LS, ct: nat, s2: LS) -> bool {
    &&& (!(s is Init) && s2 is Init ==> ct > rst(s))
    &&& (!(s2 is Init) ==> cnt(s2) == cnt(s) && rst(s2) == rst(s))
    &&& (s is Locked && s2 is Locked ==> s2->Locked_unlock == s->Locked_unlock)
    &&& (s is Locked && s2 is Unlocked ==> ct > s->Locked_unlock)
    &&& (!(s is Locked) ==> !(s2 is Locked))
    &&& (s is Init ==> s2 is Init)
    &&& (s is Locked && ct <= s->Locked_unlock && s->Locked_unlock <= rst(s) ==> s2 is Locked)   // A1'
}
// one server-side attempt at time ct: step the clock; if the credential is valid the check runs and (here) fails
pub struct Ev { pub ct: nat, pub mid: LS, pub post: LS }          // mid = state after apply_time_step, post = after the event
pub open spec fn ev_ok(s: LS, e: Ev) -> bool {
    ats_post(s, e.ct, e.mid) && (if valid(e.mid) { rf_post(e.mid, e.ct, e.post) } else { e.post == e.mid })
}
pub open spec fn failed(e: Ev) -> bool { valid(e.mid) }
pub open spec fn trace_ok(s0: LS, es: Seq<Ev>) -> bool decreases es.len() {
    if es.len() == 0 { true } else {
        let pre = es.drop_last();
        trace_ok(s0, pre)
        && ev_ok(if pre.len() == 0 { s0 } else { pre.last().post }, es.last())
        && (pre.len() > 0 ==> pre.last().ct <= es.last().ct)       // monotone clock on one server
    }
}
pub open spec fn fails_on(es: Seq<Ev>, d: nat) -> nat decreases es.len() {
    if es.len() == 0 { 0 } else { fails_on(es.drop_last(), d) + (if failed(es.last()) && day(es.last().ct) == d { 1nat } else { 0nat }) }
}
pub open spec fn last_state(s0: LS, es: Seq<Ev>) -> LS { if es.len() == 0 { s0 } else { es.last().post } }
pub open spec fn last_ct(es: Seq<Ev>) -> nat { if es.len() == 0 { 0 } else { es.last().ct } }

pub open spec fn inv(s0: LS, es: Seq<Ev>) -> bool {
    let s = last_state(s0, es); let d = day(last_ct(es));
    &&& (forall|d2: nat| d2 > d ==> fails_on(es, d2) == 0)
    &&& (fails_on(es, d) > 0 ==> !(s is Init) && rst(s) == (d + 1) * DAY && cnt(s) >= fails_on(es, d))
    &&& (fails_on(es, d) > 0 && cnt(s) >= 100 ==> s is Locked && s->Locked_unlock == rst(s))
    &&& fails_on(es, d) <= 100
}
proof fn lemma_div(t: nat, d: nat) by (nonlinear_arith) requires t > (d + 1) * 86400 ensures t / 86400 >= d + 1 {}
proof fn lemma_day_mono(a: nat, b: nat) by (nonlinear_arith) requires a <= b ensures a / 86400 <= b / 86400 {}

pub proof fn lemma_fails_zero_future(es: Seq<Ev>, d2: nat)
    requires forall|i: int| 0 <= i < es.len() ==> day(#[trigger] es[i].ct) < d2
    ensures fails_on(es, d2) == 0
    decreases es.len()
{
    if es.len() > 0 {
        assert forall|i: int| 0 <= i < es.drop_last().len() implies day(#[trigger] es.drop_last()[i].ct) < d2 by { assert(es.drop_last()[i] == es[i]); }
        lemma_fails_zero_future(es.drop_last(), d2);
    }
}

pub proof fn lemma_inv(es: Seq<Ev>)
    requires trace_ok(LS::Init, es)
    ensures inv(LS::Init, es)
    decreases es.len()
{
    let s0 = LS::Init;
    if es.len() == 0 {
        assert forall|d2: nat| fails_on(es, d2) == 0 by {}
    } else {
        let pre = es.drop_last(); let e = es.last();
        lemma_inv(pre);
        let s = last_state(s0, pre); let d0 = day(last_ct(pre)); let d = day(e.ct);
        if pre.len() > 0 { lemma_day_mono(pre.last().ct, e.ct); }
        assert(d0 <= d);
        assert(ev_ok(s, e));
        assert forall|x: nat| #[trigger] fails_on(es, x) == fails_on(pre, x) + (if failed(e) && d == x { 1nat } else { 0nat }) by {}
        assert forall|d2: nat| d2 > d implies fails_on(es, d2) == 0 by { assert(fails_on(es, d2) == fails_on(pre, d2) + 0); }
        let f = fails_on(pre, d);
        if d > d0 || f == 0 {
            assert(f == 0);
            if failed(e) { assert(rst(e.post) == (d + 1) * DAY); }
        } else {
            // same day, failures already recorded today
            assert(!(s is Init) && rst(s) == (d + 1) * DAY && cnt(s) >= f);
            if e.mid is Init { lemma_div(e.ct, d); assert(false); }
            assert(cnt(e.mid) == cnt(s) && rst(e.mid) == rst(s));
            if cnt(s) >= 100 {
                assert(s is Locked && s->Locked_unlock == rst(s));
                if e.mid is Unlocked { lemma_div(e.ct, d); assert(false); }
                assert(e.mid is Locked);
                assert(!failed(e));
            } else {
                if failed(e) { assert(rst(e.post) == (d + 1) * DAY); }
            }
        }
    }
}
// C28: on one server with a monotone clock and no administrator intervention, a password credential records
// at most 100 failed attempts on any UTC day, whatever the attempt times are.
pub proof fn c28_password_daily_bound(es: Seq<Ev>, d: nat)
    requires trace_ok(LS::Init, es)
    ensures fails_on(es, d) <= 100
    decreases es.len()
{
    lemma_inv(es);
    let dl = day(last_ct(es));
    if d > dl { } else if d == dl { } else {
        // d is an earlier day: failures on d were all recorded in a prefix whose last day was >= d; peel events of later days
        if es.len() > 0 {
            c28_password_daily_bound(es.drop_last(), d);
            if day(es.last().ct) == d { lemma_inv(es); }
        }
    }
}

// C28 sentence 1: without administrator intervention a credential that recorded a failure is refused (is_valid() false,
// so no credential check is attempted) at every later attempt up to and including its unlock time.
pub open spec fn locked_wf(s: LS) -> bool { s is Locked ==> s->Locked_unlock <= rst(s) }
pub proof fn lemma_locked_wf(es: Seq<Ev>)
    requires trace_ok(LS::Init, es)
    ensures locked_wf(last_state(LS::Init, es))
    decreases es.len()
{
    if es.len() > 0 { lemma_locked_wf(es.drop_last()); let s = last_state(LS::Init, es.drop_last()); assert(ev_ok(s, es.last())); }
}
pub proof fn c28_refused_until_unlock(es: Seq<Ev>)
    requires trace_ok(LS::Init, es), es.len() > 0,
    ensures ({ let s = last_state(LS::Init, es.drop_last()); (s is Locked && es.last().ct <= s->Locked_unlock) ==> !failed(es.last()) && es.last().post is Locked
               && es.last().post->Locked_unlock == s->Locked_unlock })
{
    lemma_locked_wf(es.drop_last());
    let s = last_state(LS::Init, es.drop_last());
    assert(ev_ok(s, es.last()));
}

// non-vacuity: a concrete two-failure trace satisfies trace_ok
pub proof fn witness() {
    let e1 = Ev { ct: 10, mid: LS::Init, post: LS::Locked { count: 1, reset: 86400, unlock: 11 } };
    let e2 = Ev { ct: 20, mid: LS::Unlocked { count: 1, reset: 86400 }, post: LS::Locked { count: 2, reset: 86400, unlock: 21 } };
    let es = seq![e1, e2];
    assert(es.drop_last() =~= seq![e1]);
    assert(seq![e1].drop_last() =~= Seq::<Ev>::empty());
    assert(trace_ok(LS::Init, Seq::<Ev>::empty()));
    assert(day_end(10) == 86400 && day_end(20) == 86400) by (compute);
    assert(trace_ok(LS::Init, seq![e1]));
    assert(trace_ok(LS::Init, es));
}
}
fn main(){}
