use vstd::prelude::*;
use core::cmp::Ordering;
use vstd::std_specs::cmp::OrdSpec;
verus! {
//@include shims/duration.rs
//@include shims/duration_ops.rs
pub mod std { pub mod mem { pub use core::mem::swap; } pub mod cmp { pub use core::cmp::min; } }
pub assume_specification<T: Ord>[ core::cmp::min::<T> ](a: T, b: T) -> (r: T) ensures r == a || r == b, T::obeys_cmp_spec() ==> ((a.cmp_spec(&b) is Greater ==> r == b) && (!(a.cmp_spec(&b) is Greater) ==> r == a));

//@extract ONEDAY
//@extract CredSoftLockPolicy
//@extract LockState
//@extract CredSoftLock

// ---- accessors used by the contracts ----
pub open spec fn s_count(s: LockState) -> usize { match s { LockState::Init => 0usize, LockState::Locked { count, .. } => count, LockState::Unlocked(count, _) => count } }
pub open spec fn s_reset(s: LockState) -> Duration { match s { LockState::Init => Duration { secs: 0, nanos: 0 }, LockState::Locked { reset_at, .. } => reset_at, LockState::Unlocked(_, reset_at) => reset_at } }
pub open spec fn s_unlock(s: LockState) -> Duration { match s { LockState::Locked { unlock_at, .. } => unlock_at, _ => Duration { secs: 0, nanos: 0 } } }
// an administrator-set soft-lock expiry that has not been applied yet
pub open spec fn fresh_expiry(l: CredSoftLock, e: Option<Duration>) -> bool { e is Some && e->Some_0 != l.last_expire_at }
// preconditions found by the verifier: the `+ ONEDAY` / `+ step` / `+ 10 s` must not overflow, `% step` must not divide by zero
pub open spec fn time_in_range(ct: Duration) -> bool { ct.wf() && ct.secs < 0xffff_ffff_0000_0000 }
pub open spec fn policy_ok(p: CredSoftLockPolicy) -> bool { p matches CredSoftLockPolicy::Totp(step) ==> 0 < step < 0x1_0000_0000 }

proof fn lemma_window_end(t: u64, w: u64)
    requires 0 < w, t + w <= u64::MAX,
    ensures ({ let n = (t + w) as u64; let e = (n - n % w) as u64; e % w == 0 && t < e && e - t <= w })
{
    let n = (t + w) as int; let wi = w as int;
    vstd::arithmetic::div_mod::lemma_fundamental_div_mod(n, wi);
    vstd::arithmetic::div_mod::lemma_mod_bound(n, wi);
    vstd::arithmetic::div_mod::lemma_mod_multiples_basic(n / wi, wi);
    vstd::arithmetic::mul::lemma_mul_is_commutative(wi, n / wi);
}

impl CredSoftLockPolicy {
//@extract failure_next_state
}
impl CredSoftLock {
//@extract new
//@extract apply_time_step
//@extract is_valid
//@extract record_failure
}
}
fn main(){}
