use vstd::prelude::*;
use core::cmp::Ordering;
use vstd::std_specs::iter::IteratorSpec;
verus! {
//@include shims/uuid.rs
//@include shims/std_option.rs
pub struct AttrString { pub o: u64 }
//@extract Attribute
pub enum PartialValue { Uuid(Uuid), Refer(Uuid), Other(u64) }
//@extract FC
//@extract f_eq
//@extract f_inc
//@extract f_and
//@extract f_andnot
//@extract f_pres
pub enum PluginError { ReferentialIntegrity(String), Other }
pub enum OperationError { Plugin(PluginError), ReferenceLoop, Backend, Other }
pub struct Filter { pub fc: FC }
pub fn kvx_filter(fc: FC) -> (r: Filter) ensures r.fc == fc { Filter { fc } }     // filter!(fc) = Filter::new_ignore_hidden(fc): live entries only
pub struct Db { pub o: int }
// "some live entry matches fc"; the laws used: a uuid-equality matches iff that uuid is live; an Inclusion matches iff every one of its
// terms is matched by some live entry (the meaning of f_inc documented at its use); AND of [uuid = u, not pres(refers)] / [uuid = u, pres(refers)]
pub uninterp spec fn exists_fc(db: Db, fc: FC) -> bool;
pub uninterp spec fn live(db: Db, u: Uuid) -> bool;
pub uninterp spec fn has_refers(db: Db, u: Uuid) -> bool;
pub open spec fn uuid_eq(u: Uuid) -> FC { FC::Eq(Attribute::Uuid, PartialValue::Uuid(u)) }
#[verifier::external_body] pub proof fn axiom_uuid_eq(db: Db, u: Uuid) ensures exists_fc(db, uuid_eq(u)) == live(db, u) { }
#[verifier::external_body] pub proof fn axiom_inclusion(db: Db, l: Vec<FC>) ensures exists_fc(db, FC::Inclusion(l)) <==> forall|i: int| 0 <= i < l@.len() ==> exists_fc(db, #[trigger] l@[i]) { }
pub open spec fn is_norefers_term(f: FC, u: Uuid) -> bool { f matches FC::And(l) && l@.len() == 2 && l@[0] == uuid_eq(u) && (l@[1] matches FC::AndNot(b) && *b == FC::Pres(Attribute::Refers)) }
pub open spec fn is_refers_term(f: FC, u: Uuid) -> bool { f matches FC::And(l) && l@.len() == 2 && l@[0] == uuid_eq(u) && l@[1] == FC::Pres(Attribute::Refers) }
#[verifier::external_body] pub proof fn axiom_norefers(db: Db, f: FC, u: Uuid) requires is_norefers_term(f, u) ensures exists_fc(db, f) == (live(db, u) && !has_refers(db, u)) { }
#[verifier::external_body] pub proof fn axiom_refers(db: Db, f: FC, u: Uuid) requires is_refers_term(f, u) ensures exists_fc(db, f) == (live(db, u) && has_refers(db, u)) { }
pub struct QueryServerWriteTransaction { pub o: u8 }
impl QueryServerWriteTransaction {
    pub uninterp spec fn db(&self) -> Db;
    #[verifier::external_body] pub fn internal_exists(&mut self, f: &Filter) -> (r: Result<bool, OperationError>)
        ensures final(self).db() == old(self).db(), r matches Ok(b) ==> b == exists_fc(old(self).db(), f.fc) { unimplemented!() }
}
// inner.iter().map(f).collect::<Vec<FC>>() (std documentation), through the closure's own contract
#[verifier::external_body] pub fn kvx_map_collect<F: Fn(&Uuid) -> FC>(s: &[Uuid], f: F) -> (r: Vec<FC>)
    requires forall|u: &Uuid| #[trigger] f.requires((u,)),
    ensures r@.len() == s@.len(), forall|i: int| 0 <= i < s@.len() ==> f.ensures((&s@[i],), #[trigger] r@[i]) { unimplemented!() }
// candidate analysis (iterator pipelines over entries and schema reference types): ASSUMED to yield the references the operation adds
pub struct Entry { pub o: u8 }
pub struct Arc<T> { pub v: T }
pub type EntrySealedCommitted = Entry;
pub uninterp spec fn added_refs(pre: Option<Seq<Arc<Entry>>>, post: Seq<Entry>) -> Seq<Uuid>;
pub uninterp spec fn refers_targets(post: Seq<Entry>) -> Seq<Uuid>;
pub open spec fn pre_view(pre: Option<&[Arc<Entry>]>) -> Option<Seq<Arc<Entry>>> { match pre { Some(p) => Some(p@), None => None } }
pub struct ReferentialIntegrity;
impl ReferentialIntegrity {
    #[verifier::external_body] pub fn cand_references_to_uuid_filter(qs: &mut QueryServerWriteTransaction, pre: Option<&[Arc<Entry>]>, post: &[Entry]) -> (r: Result<Vec<Uuid>, OperationError>)
        ensures final(qs).db() == old(qs).db(), r matches Ok(v) ==> v@ == added_refs(pre_view(pre), post@) { unimplemented!() }
    #[verifier::external_body] pub fn cand_refers_to_target_uuid(post: &[Entry]) -> (r: Vec<Uuid>) ensures r@ == refers_targets(post@) { unimplemented!() }
//@extract check_uuids_exist_fast
//@extract check_uuids_exist_slow
//@extract check_refers_to_target_loop_fast
//@extract check_refers_to_target_loop_slow
//@extract post_modify_inner
}
}
fn main(){}
