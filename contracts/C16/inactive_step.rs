use vstd::prelude::*;
use core::cmp::Ordering;
verus! {
//@include shims/uuid.rs
pub struct EntrySealedCommitted { pub o: int }
impl EntrySealedCommitted {
    pub uninterp spec fn uuid(&self) -> Uuid;
    pub uninterp spec fn recycled(&self) -> bool;      // carries class recycled
    pub uninterp spec fn tombstone(&self) -> bool;     // carries class tombstone
    // C16's "live": neither recycled nor tombstoned
    pub open spec fn live(&self) -> bool { !self.recycled() && !self.tombstone() }
    #[verifier::external_body] pub fn get_uuid(&self) -> (r: Uuid) ensures r == self.uuid() { unimplemented!() }
    // Entry::mask_recycled_ts: None for recycled AND tombstoned entries; Entry::mask_recycled: None for recycled entries only
    #[verifier::external_body] pub fn mask_recycled_ts(&self) -> (r: Option<&EntrySealedCommitted>) ensures r is Some == self.live() { unimplemented!() }
    #[verifier::external_body] pub fn mask_recycled(&self) -> (r: Option<&EntrySealedCommitted>) ensures r is Some == !self.recycled() { unimplemented!() }
}
pub struct Arc<T> { pub v: T }
impl Arc<EntrySealedCommitted> {
    pub fn mask_recycled_ts(&self) -> (r: Option<&EntrySealedCommitted>) ensures r is Some == self.v.live() { self.v.mask_recycled_ts() }
    pub fn mask_recycled(&self) -> (r: Option<&EntrySealedCommitted>) ensures r is Some == !self.v.recycled() { self.v.mask_recycled() }
}
//@extract inactive_step
}
fn main(){}
