use vstd::prelude::*;
use core::cmp::Ordering;
use vstd::std_specs::iter::IteratorSpec;
verus! {
//@include shims/uuid.rs
pub enum OperationError { Backend }
#[derive(Clone, Copy)] pub struct AttrString { pub o: u64 }
#[derive(Copy)]
//@extract Attribute
impl Clone for Attribute { fn clone(&self) -> (r: Attribute) ensures r == *self { *self } }
pub enum PartialValue { Refer(Uuid), Other }
// the set of `PartialValue::Refer(u)` for the deleted uuids, as the set of those uuids
#[verifier::external_body] #[verifier::reject_recursive_types(T)] pub struct BTreeSet<T> { p: core::marker::PhantomData<T> }
pub type RemovedIds = BTreeSet<PartialValue>;
impl BTreeSet<PartialValue> { pub uninterp spec fn uuids(&self) -> Set<Uuid>; }
// `uuids.iter().map(|u| PartialValue::Refer(*u)).collect::<BTreeSet<_>>()`
#[verifier::external_body] pub fn kvx_removed_ids(uuids: &Vec<Uuid>) -> (r: RemovedIds)
    ensures forall|u: Uuid| #[trigger] r.uuids().contains(u) <==> uuids@.contains(u) { unimplemented!() }
// schema: the reference-typed attributes
pub struct SchemaAttribute { pub name: Attribute }
pub struct RefTypes { pub o: u8 }
impl RefTypes { pub uninterp spec fn names(&self) -> Set<Attribute>; }
// `for a in ref_types.values()`: the reference attributes, as a vector
#[verifier::external_body] pub fn kvx_ref_values(r: &RefTypes) -> (v: Vec<&SchemaAttribute>)
    ensures forall|a: Attribute| #[trigger] r.names().contains(a) <==> exists|i: int| 0 <= i < v@.len() && (#[trigger] v@[i]).name == a { unimplemented!() }
pub struct Schema { pub o: u8 }
impl Schema { pub uninterp spec fn ref_names(&self) -> Set<Attribute>;
    #[verifier::external_body] pub fn get_reference_types(&self) -> (r: &RefTypes) ensures r.names() == self.ref_names() { unimplemented!() } }
// filters: the terms of an OR of equality tests
pub enum FC { Eq(Attribute, PartialValue) }
pub fn f_eq(a: Attribute, v: PartialValue) -> (r: FC) ensures r == FC::Eq(a, v) { FC::Eq(a, v) }
pub struct Filter { pub o: int }
impl Filter { pub uninterp spec fn terms(&self) -> Set<FC>; }
// `filter_all!(f_or(uuids.into_iter().flat_map(|u| ref_types.values().map(move |r_type| { f_eq(r_type.name.clone(), PartialValue::Refer(u)) })).collect()))`
// (inside a macro invocation, so the closures are not visible to the indexer: the redirect matches this exact text, whitespace aside):
// one equality term per deleted uuid and reference attribute of the schema (std: flat_map / map / collect)
#[verifier::external_body] pub fn kvx_refs_filter(uuids: Vec<Uuid>, r: &RefTypes) -> (f: Filter)
    ensures forall|u: Uuid, a: Attribute| uuids@.contains(u) && r.names().contains(a) ==> #[trigger] f.terms().contains(FC::Eq(a, PartialValue::Refer(u))) { unimplemented!() }
// the same pipeline with an additional `.filter(..)` adapter on the reference attributes (not in the current source): some of the terms
#[verifier::external_body] pub fn kvx_refs_filter_some(uuids: Vec<Uuid>, r: &RefTypes) -> (f: Filter) { unimplemented!() }
// an entry: for each attribute, the uuids it refers to (ghost)
pub struct EntrySealedCommitted { pub o: int }
impl EntrySealedCommitted { pub uninterp spec fn uuid(&self) -> Uuid; }
pub struct Arc<T> { pub v: T }
pub struct EntryInvalidCommitted { pub o: int }
impl EntryInvalidCommitted {
    pub uninterp spec fn refs(&self, a: Attribute) -> Set<Uuid>;
    // Entry::remove_avas: removes the given partial values from that attribute, leaves the other attributes alone
    #[verifier::external_body] pub fn remove_avas(&mut self, a: &Attribute, ids: &RemovedIds)
        ensures final(self).refs(*a) == old(self).refs(*a).difference(ids.uuids()),
                forall|b: Attribute| b != *a ==> #[trigger] final(self).refs(b) == old(self).refs(b) { unimplemented!() }
}
pub struct QueryServerWriteTransaction { pub o: int }
impl QueryServerWriteTransaction {
    pub uninterp spec fn schema(&self) -> Schema;
    pub uninterp spec fn applied(&self) -> Seq<(Arc<EntrySealedCommitted>, EntryInvalidCommitted)>;
    #[verifier::external_body] pub fn get_schema(&self) -> (r: &'static Schema) ensures *r == self.schema() { unimplemented!() }
    // holders(a, u): the uuids of the entries (hidden ones included: filter_all) that refer to u through attribute a
    pub uninterp spec fn holders(&self, a: Attribute, u: Uuid) -> Set<Uuid>;
    // a search for an OR of equality terms returns every entry that satisfies one of them (search semantics: C01)
    #[verifier::external_body] pub fn internal_search_writeable(&mut self, f: &Filter) -> (r: Result<Vec<(Arc<EntrySealedCommitted>, EntryInvalidCommitted)>, OperationError>)
        ensures *final(self) == *old(self),
                r matches Ok(v) ==> forall|a: Attribute, u: Uuid, h: Uuid| f.terms().contains(FC::Eq(a, PartialValue::Refer(u))) && #[trigger] old(self).holders(a, u).contains(h) ==> in_set(v@, h) { unimplemented!() }
    #[verifier::external_body] pub fn internal_apply_writable(&mut self, w: Vec<(Arc<EntrySealedCommitted>, EntryInvalidCommitted)>) -> (r: Result<(), OperationError>)
        ensures final(self).applied() == old(self).applied() + w@ { unimplemented!() }
}
// C16, "deleting an entry removes the references to it": an entry written back by the step refers to none of the deleted uuids
// through any reference-typed attribute of the schema
pub open spec fn cleaned(e: EntryInvalidCommitted, refnames: Set<Attribute>, removed: Seq<Uuid>) -> bool {
    forall|a: Attribute, u: Uuid| refnames.contains(a) && removed.contains(u) ==> !(#[trigger] e.refs(a).contains(u))
}
// attributes 0..n of the reference list are cleaned
pub open spec fn cleaned_upto(e: EntryInvalidCommitted, v: Seq<&SchemaAttribute>, n: int, removed: Seq<Uuid>) -> bool {
    forall|j: int, u: Uuid| 0 <= j < n && removed.contains(u) ==> !(#[trigger] e.refs(v[j].name).contains(u))
}
pub open spec fn in_set(v: Seq<(Arc<EntrySealedCommitted>, EntryInvalidCommitted)>, h: Uuid) -> bool { exists|i: int| 0 <= i < v.len() && (#[trigger] v[i]).0.v.uuid() == h }
// and every entry that holds such a reference IS written back (so none keeps a reference to a deleted entry)
pub open spec fn all_holders_written(log: Seq<(Arc<EntrySealedCommitted>, EntryInvalidCommitted)>, from: int, qs0: QueryServerWriteTransaction, removed: Seq<Uuid>) -> bool {
    forall|a: Attribute, u: Uuid, h: Uuid| qs0.schema().ref_names().contains(a) && removed.contains(u) && #[trigger] qs0.holders(a, u).contains(h) ==> in_set(log.subrange(from, log.len() as int), h)
}
pub open spec fn log_extends<T>(old_log: Seq<T>, new_log: Seq<T>) -> bool {
    old_log.len() <= new_log.len() && forall|i: int| 0 <= i < old_log.len() ==> #[trigger] new_log[i] == old_log[i]
}
pub struct ReferentialIntegrity;
impl ReferentialIntegrity {
//@extract remove_references
}
}
fn main(){}
