use vstd::prelude::*;
use core::cmp::Ordering;
use std::collections::BTreeSet;
use vstd::std_specs::iter::IteratorSpec;
macro_rules! filter_all { ($($t:tt)*) => { KvxFilter::opaque() }; }
verus! {
//@include shims/uuid.rs
#[derive(Clone, PartialEq, Eq)]
pub struct AttrString { pub o: u64 }
//@extract Attribute
//@extract EntryClass
// derived (structural) equality of Attribute
impl vstd::std_specs::cmp::PartialEqSpecImpl for Attribute {
    open spec fn obeys_eq_spec() -> bool { true }
    open spec fn eq_spec(&self, other: &Attribute) -> bool { *self == *other }
}
pub const DYNAMIC_RANGE_MINIMUM_UUID: Uuid = Uuid(@@constexpr:DYNAMIC_RANGE_MINIMUM_UUID:uuid!\("([0-9a-f-]+)"\):uuidhex@@);
pub const UUID_ANONYMOUS: Uuid = Uuid(@@constexpr:UUID_ANONYMOUS:uuid!\("([0-9a-f-]+)"\):uuidhex@@);
pub const UUID_DOES_NOT_EXIST: Uuid = Uuid(@@constexpr:UUID_DOES_NOT_EXIST:uuid!\("([0-9a-f-]+)"\):uuidhex@@);
impl Uuid { #[verifier::external_body] pub fn new_v4() -> (r: Uuid) { unimplemented!() } }

// ---- stand-ins (ASSUMED accessor contracts, read off server/lib/src/entry.rs) ----
pub enum PluginError { Base(String), Other }
pub enum OperationError { Plugin(PluginError), InvalidAttribute(String), SystemProtectedAttribute, Other }
pub enum Value { Uuid(Uuid), Iutf8(EntryClass), Other(u64) }
pub struct PartialValue { pub o: u64 }
#[verifier::external_body] pub struct ValueSet { p: u8 }
impl ValueSet { pub uninterp spec fn len_spec(&self) -> nat; #[verifier::external_body] pub fn len(&self) -> (r: usize) ensures r == self.len_spec() { unimplemented!() } }
impl EntryClass { #[verifier::external_body] pub fn to_value(self) -> (r: Value) ensures r == Value::Iutf8(self) { unimplemented!() } }
impl Attribute { #[verifier::external_body] pub fn to_string(&self) -> (r: String) { unimplemented!() } }
pub struct KvxOnce<T> { pub v: T }
pub fn once<T>(v: T) -> (r: KvxOnce<T>) ensures r.v == v { KvxOnce { v } }
pub struct EntryInvalid; pub struct EntryNew; pub struct EntryCommitted; pub struct EntrySealed;
#[verifier::external_body]
#[verifier::reject_recursive_types(V)]
#[verifier::reject_recursive_types(S)]
pub struct Entry<V, S> { p: core::marker::PhantomData<(V, S)> }
pub type EntryInvalidNew = Entry<EntryInvalid, EntryNew>;
pub type EntrySealedCommitted = Entry<EntrySealed, EntryCommitted>;
impl<V, S> Entry<V, S> {
    pub uninterp spec fn uuid_count(&self) -> Option<nat>;     // number of values of the uuid attribute (None: attribute absent)
    pub uninterp spec fn uuid_single(&self) -> Option<Uuid>;   // Some(u) iff the uuid attribute holds exactly the one value u
    pub uninterp spec fn has_builtin_class(&self) -> bool;
    #[verifier::external_body] pub fn get_ava_set(&self, a: Attribute) -> (r: Option<&ValueSet>)
        ensures a == Attribute::Uuid ==> (r is Some == self.uuid_count() is Some) && (r is Some ==> r->Some_0.len_spec() == self.uuid_count()->Some_0) { unimplemented!() }
    #[verifier::external_body] pub fn get_ava_single_uuid(&self, a: Attribute) -> (r: Option<Uuid>)
        ensures a == Attribute::Uuid ==> r == self.uuid_single() { unimplemented!() }
    // add_ava / add_ava_if_not_exist on another attribute never changes the uuid attribute; adding a class value other than
    // `builtin` does not make the entry builtin
    #[verifier::external_body] pub fn add_ava(&mut self, a: Attribute, v: Value)
        ensures a != Attribute::Uuid ==> final(self).uuid_count() == old(self).uuid_count() && final(self).uuid_single() == old(self).uuid_single(),
                final(self).has_builtin_class() == (old(self).has_builtin_class() || (a == Attribute::Class && v == Value::Iutf8(EntryClass::Builtin))) { unimplemented!() }
    #[verifier::external_body] pub fn add_ava_if_not_exist(&mut self, a: Attribute, v: Value)
        ensures a != Attribute::Uuid ==> final(self).uuid_count() == old(self).uuid_count() && final(self).uuid_single() == old(self).uuid_single() { unimplemented!() }
    #[verifier::external_body] pub fn set_ava(&mut self, a: &Attribute, vs: KvxOnce<Value>)
        ensures *a == Attribute::Uuid ==> (vs.v matches Value::Uuid(u) ==> final(self).uuid_single() == Some(u) && final(self).uuid_count() == Some(1nat)),
                final(self).has_builtin_class() == old(self).has_builtin_class() { unimplemented!() }
}
pub struct Identity { pub internal: bool }
impl Identity { pub fn is_internal(&self) -> (r: bool) ensures r == self.internal { self.internal } }
pub struct CreateEvent { pub ident: Identity }
pub enum Modify { Present(Attribute, Value), Removed(Attribute, PartialValue), Purged(Attribute), Assert(Attribute, PartialValue), Set(Attribute, ValueSet) }
pub struct ModifyList { pub mods: Vec<Modify> }
impl ModifyList { pub fn iter(&self) -> (r: core::slice::Iter<'_, Modify>) ensures r.remaining().len() == self.mods@.len(), forall|i: int| #![trigger r.remaining()[i]] #![trigger self.mods@[i]] 0 <= i < self.mods@.len() ==> *r.remaining()[i] == self.mods@[i] { self.mods.iter() } }
pub struct ModifyEvent { pub ident: Identity, pub modlist: ModifyList }
pub struct KvxFilter { pub o: u8 }
impl KvxFilter { #[verifier::external_body] pub fn opaque() -> (r: KvxFilter) { unimplemented!() } }
#[verifier::external_body] pub struct QueryServerWriteTransaction { p: u8 }
impl QueryServerWriteTransaction { #[verifier::external_body] pub fn internal_exists(&mut self, f: &KvxFilter) -> (r: Result<bool, OperationError>) { unimplemented!() } }
pub struct Arc<T> { pub v: T }
// R3: Iterator::try_for_each (a provided trait method: this Verus cannot attach a specification to it) redirected to a stand-in
// with the documented behaviour: Ok iff the closure returned Ok for every element; an Err is one the closure returned
pub trait KvxTryForEach<'a, T: 'a>: Sized {
    #[verifier::prophetic] spec fn kvx_items(&self) -> Seq<&'a T>;
    fn kvx_try_for_each<E, F: Fn(&'a T) -> Result<(), E>>(self, f: F) -> (r: Result<(), E>)
        requires forall|i: int| 0 <= i < self.kvx_items().len() ==> f.requires((#[trigger] self.kvx_items()[i],)),
        ensures self.kvx_items().len() >= 0,   // (ground occurrence so the definition of kvx_items unfolds at the call site)
                r is Ok ==> forall|i: int| 0 <= i < self.kvx_items().len() ==> f.ensures((#[trigger] self.kvx_items()[i],), Ok(())),
                r matches Err(e) ==> exists|i: int| 0 <= i < self.kvx_items().len() && f.ensures((#[trigger] self.kvx_items()[i],), Err(e));
}
impl<'a, T> KvxTryForEach<'a, T> for core::slice::Iter<'a, T> {
    #[verifier::prophetic] open spec fn kvx_items(&self) -> Seq<&'a T> { self.remaining() }
    #[verifier::external_body] fn kvx_try_for_each<E, F: Fn(&'a T) -> Result<(), E>>(self, f: F) -> (r: Result<(), E>) { unimplemented!() }
}

// BatchModifyEvent.modset: BTreeMap<Uuid, ModifyList> observed as the sequence of its values; `.values().flat_map(f).try_for_each(g)`
// are inherent methods of the stand-ins below (same names as std), specified through the closures' own contracts
pub struct ModSetValid { pub lists: Vec<ModifyList> }
pub struct BatchModifyEvent { pub ident: Identity, pub modset: ModSetValid }
pub struct KvxValues<'a> { pub lists: &'a Vec<ModifyList> }
#[verifier::external_body]
pub struct KvxFlat<'a> { p: core::marker::PhantomData<&'a Modify> }
impl<'a> KvxFlat<'a> { pub uninterp spec fn items(&self) -> Seq<&'a Modify>; }
impl ModSetValid { pub fn values(&self) -> (r: KvxValues<'_>) ensures r.lists == &self.lists { KvxValues { lists: &self.lists } } }
impl<'a> KvxValues<'a> {
    // every element of every inner iterator appears in the flattened sequence
    #[verifier::external_body]
    pub fn flat_map<F: Fn(&'a ModifyList) -> core::slice::Iter<'a, Modify>>(self, f: F) -> (r: KvxFlat<'a>)
        requires forall|k: int| 0 <= k < self.lists@.len() ==> f.requires((&#[trigger] self.lists@[k],)),
        ensures forall|k: int| #![trigger self.lists@[k]] 0 <= k < self.lists@.len() ==> exists|it: core::slice::Iter<'a, Modify>| #![trigger f.ensures((&self.lists@[k],), it)] f.ensures((&self.lists@[k],), it)
                    && (forall|j: int| #![trigger it.remaining()[j]] 0 <= j < it.remaining().len() ==> exists|x: int| #![trigger r.items()[x]] 0 <= x < r.items().len() && r.items()[x] == it.remaining()[j]),
    { unimplemented!() }
}
impl<'a> KvxFlat<'a> {
    #[verifier::external_body]
    pub fn try_for_each<E, F: Fn(&'a Modify) -> Result<(), E>>(self, f: F) -> (r: Result<(), E>)
        requires forall|i: int| 0 <= i < self.items().len() ==> f.requires((#[trigger] self.items()[i],)),
        ensures r is Ok ==> forall|i: int| 0 <= i < self.items().len() ==> f.ensures((#[trigger] self.items()[i],), Ok(())),
                r matches Err(e) ==> exists|i: int| 0 <= i < self.items().len() && f.ensures((#[trigger] self.items()[i],), Err(e)),
    { unimplemented!() }
}
// ---- specification from the statement of C20 ----
pub open spec fn system_range(u: Uuid) -> bool { u.0 < DYNAMIC_RANGE_MINIMUM_UUID.0 }
// a modification that targets the uuid attribute (present, remove, purge, set)
pub open spec fn touches_uuid(m: Modify) -> bool {
    match m { Modify::Present(a, _) => a == Attribute::Uuid, Modify::Removed(a, _) => a == Attribute::Uuid, Modify::Purged(a) => a == Attribute::Uuid,
              Modify::Set(a, _) => a == Attribute::Uuid, Modify::Assert(_, _) => false }
}

pub struct Base {}
impl Base {
//@extract pre_create_transform
//@extract pre_modify
//@extract pre_batch_modify
}
}
fn main(){}
