#!/bin/sh
# Offline setup: build the extractor, warm Verus, warm the Kani dependency cache.
set -e
cd "$(dirname "$0")"
export CARGO_NET_OFFLINE=true
(cd kvx && cargo build --offline --release 2>&1 | tail -2)
mkdir -p .work .cache evidence replay
cat > .work/warm.rs <<'W'
use vstd::prelude::*;
verus!{ proof fn warm() ensures 1 + 1 == 2int {} }
fn main(){}
W
(cd .work && verus warm.rs >/dev/null 2>&1 || true)
if [ -x lib/kani_warm.sh ]; then sh lib/kani_warm.sh || echo "kani warm-up failed (kani units will report undecided)"; fi
echo setup done
