#!/usr/bin/env python3
"""tools/keep_seed.py <tag> <check-result: caught|missed|undecided> "<detail>" [dest-name] — store a confirmed seed under /verif/seeded/<dest>/"""
import json, os, shutil, sys
tag, result, detail = sys.argv[1:4]
dest = sys.argv[4] if len(sys.argv) > 4 else tag
src = f"/tmp/seeds/{tag}"
dst = f"/verif/seeded/{dest}"
os.makedirs(dst, exist_ok=True)
for f in ("patch.diff", "demo.diff"):
    shutil.copy(os.path.join(src, f), os.path.join(dst, f))
meta = json.load(open(os.path.join(src, "meta.json")))
conf = open(os.path.join(src, "confirm.log")).read() if os.path.exists(os.path.join(src, "confirm.log")) else ""
meta["confirmed_by_me"] = {"ran": "tools/confirm_seed.sh in the seed's scratch worktree: demo alone on the unchanged code, then the crate's whole --lib suite with change + demo", "log": conf}
meta["detected_by"] = {"check": f"./check {meta.get('property', tag[:3])} against the change (tools/mutrun <id> patch.diff)", "result": result, "detail": detail}
json.dump(meta, open(os.path.join(dst, "meta.json"), "w"), indent=1)
print("kept", dst)
