#!/usr/bin/env python3
"""tools/allquick.py [tier] — run every registered check of MANIFEST.json (quick by default) and print one line each."""
import json, subprocess, sys, time
tier = sys.argv[1] if len(sys.argv) > 1 else "quick"
m = json.load(open('/verif/MANIFEST.json'))
bad = []
t0 = time.time()
for c in m['checks']:
    p = subprocess.run(c[tier + '_cmd'], shell=True, capture_output=True, text=True, cwd='/verif')
    last = [l for l in p.stdout.splitlines() if l.startswith(('PASS', 'VIOLATION', 'UNDECIDED'))]
    print(c['property_id'], p.returncode, (last[-1] if last else '')[:110], flush=True)
    if p.returncode != 0:
        bad.append(c['property_id'])
print('BAD', bad, round(time.time() - t0))
