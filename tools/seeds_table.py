#!/usr/bin/env python3
"""Regenerate the seeded-changes table in DESIGN.md (between the SEEDS markers) from seeded/*/meta.json."""
import json, os, glob, re
V = os.path.dirname(os.path.dirname(os.path.abspath(__file__)))
rows = []
for d in sorted(glob.glob(os.path.join(V, "seeded", "*"))):
    mp = os.path.join(d, "meta.json")
    if not os.path.exists(mp):
        continue
    m = json.load(open(mp))
    det = m.get("detected_by", {})
    files = ", ".join(os.path.basename(f) for f in m.get("files_changed", []))[:60]
    needs = re.sub(r"\s+", " ", str(m.get("needs_to_manifest", "")))[:170]
    res = det.get("result", "?")
    detail = re.sub(r"\s+", " ", str(det.get("detail", "")))[:330]
    rows.append(f"| `{os.path.basename(d)}` | {m.get('property')} | {files} | {needs} | **{res}** — {detail} |")
table = "| seed | property | file(s) changed | needs, to manifest | outcome of `./check` |\n|---|---|---|---|---|\n" + "\n".join(rows)
p = os.path.join(V, "DESIGN.md")
s = open(p).read()
a, b = "<!-- SEEDS:BEGIN -->", "<!-- SEEDS:END -->"
if a in s:
    s = s[:s.index(a) + len(a)] + "\n" + table + "\n" + s[s.index(b):]
    open(p, "w").write(s)
print(table[:400])
