#!/usr/bin/env python3
"""tools/derive_unit.py <base.toml> <out.toml> <property> <unit> <keep-regex> [--aux-lemma NAME]... [--not-covered TEXT]...
Derive a second property's unit from an existing sidecar: same template, same extraction, same contracts, but only the clauses
matching <keep-regex> count for <property>; every other clause is tagged #aux (a failure there is AUXILIARY-CHANGED for this
property and a VIOLATION for the base property's own unit). Run again whenever the base sidecar changes."""
import re, sys, os, json
base, out, prop, unit, keep = sys.argv[1:6]
rest = sys.argv[6:]
auxl, notcov = [], []
appendf = None
while rest:
    k = rest.pop(0)
    if k == "--aux-lemma": auxl.append(rest.pop(0))
    elif k == "--not-covered": notcov.append(rest.pop(0))
    elif k == "--append": appendf = rest.pop(0)
keep = re.compile(keep)
src = open(base).read().split("\n")
res = []
in_clause = False
tpl_dir = os.path.relpath(os.path.dirname(os.path.abspath(base)), os.path.dirname(os.path.abspath(out)))
in_notcov = False
for line in src:
    if re.match(r"property\s*=", line): line = f'property  = "{prop}"'
    elif re.match(r"unit\s*=", line): line = f'unit      = "{unit}"'
    elif (m := re.match(r'template\s*=\s*"(.*)"', line)):
        line = f'template  = "{os.path.normpath(os.path.join(tpl_dir, m.group(1)))}"'
        if auxl: line += "\naux_lemmas = [" + ", ".join(f'"{a}"' for a in auxl) + "]"
    elif re.match(r"aux_lemmas\s*=", line): continue
    if notcov and re.match(r"not_covered\s*=\s*\[", line):
        res.append("not_covered = [")
        for t in notcov: res.append("  " + json.dumps(t, ensure_ascii=False) + ",")
        in_notcov = not line.rstrip().endswith("]")
        if not in_notcov: res.append("]")
        continue
    if in_notcov:
        if line.strip() == "]":
            in_notcov = False; res.append("]")
        continue
    m = re.match(r"(ensures|requires|invariant)\s*=\s*\[(.*)$", line)
    if m:
        in_clause = True
        tail = m.group(2)
        if tail.strip().endswith("]"):
            # single-line array
            in_clause = False
            def tagone(mm):
                t = mm.group(1)
                base = t[5:] if t.startswith("#aux ") else t
                return '"' + (base if keep.search(base) else "#aux " + base) + '"'
            line = f"{m.group(1)} = [" + re.sub(r'"((?:[^"\\]|\\.)*)"', tagone, tail)
        res.append(line); continue
    if in_clause:
        if line.strip().startswith("]"):
            in_clause = False
        else:
            mm = re.match(r'(\s*)"((?:[^"\\]|\\.)*)"(,?)\s*$', line)
            if mm:
                cbase = mm.group(2)[5:] if mm.group(2).startswith("#aux ") else mm.group(2)
                line = f'{mm.group(1)}"{cbase if keep.search(cbase) else "#aux " + cbase}"{mm.group(3)}'
    res.append(line)
txt = "\n".join(res)
if appendf:
    txt += "\n" + open(appendf).read()
open(out, "w").write(txt)
print(f"derived {out} from {base}")
