#!/usr/bin/env python3
"""tools/seed_prompt.py <Cnn> [variant-hint] — prints the prompt given to an independent seeding sub-agent (property text only, nothing from /verif)."""
import json, sys
pid = sys.argv[1]
hint = sys.argv[2] if len(sys.argv) > 2 else ""
tag = sys.argv[3] if len(sys.argv) > 3 else pid
p = [json.loads(l) for l in open('/verif/properties.jsonl') if json.loads(l)['id'] == pid][0]
print(f"""You are helping to evaluate a verification harness by writing ONE realistic property-breaking change ("seeded defect") to the kanidm code base (Rust identity management server).

Your scratch git worktree of the repository is /tmp/wt-{tag} (already created, with a warm build directory at /tmp/wt-{tag}/target). Work ONLY inside /tmp/wt-{tag} and /tmp/seeds/{tag}. Do NOT read, list or modify anything under /verif or /repo, and do not use git commands that touch /repo (no commits, no branch changes; `git diff` / `git apply` / `git checkout -- .` inside your worktree are fine).

The property (this is all the information you get about what is being verified):

id: {p['id']}
title: {p['title']}
statement: {p['statement']}
quantifier: {p['quantifier']['text']}
why existing tests cannot settle it: {p['why_tests_cant']}
code anchors: {json.dumps(p['anchors'].get('mechanism', []))}

Task: write a change to the kanidm source (non-test code) that BREAKS this property while (a) still compiling, and (b) still passing the existing test suite of the crates it touches. It must look like something a developer could plausibly commit (a refactor, an optimisation, an off-by-one, a reordered check, a wrong variant/constant, a condition dropped on one path, two sites that each look fine alone) — not a blatant sabotage, no comments announcing the defect. It must need something SPECIFIC to manifest: an unusual input, a boundary value, a multi-step sequence of operations, a particular variant or configuration — not something ordinary use would expose at once. {hint}

Also write a demonstration: a new #[test] (added to an existing `mod tests` of the touched crate, or a new test file) that PASSES on the unchanged code and FAILS with your change, showing the property violated through the real code.

Environment: no network. Build/test with e.g.
  cd /tmp/wt-{tag} && CARGO_TARGET_DIR=/tmp/wt-{tag}/target CARGO_NET_OFFLINE=true cargo +1.96.0 test --offline -p <crate> --lib <filter>
(the server library crate is `kanidmd_lib` in server/lib; a cold build of it takes a few minutes; use `--lib <filter>` to run subsets; the complete kanidmd_lib lib test run takes ~3-5 minutes — do run the whole `--lib` test suite of every crate you touch once with your change applied, to confirm nothing existing fails). Do not run the whole workspace's tests (kanidmd_testkit integration tests are very slow) — but say so in meta.json.

Deliverables, in /tmp/seeds/{tag}/ :
  patch.diff  — `git diff` of ONLY the property-breaking change to non-test code (applies with `git apply` on a clean worktree)
  demo.diff   — `git diff` of ONLY the demonstration test (applies on a clean worktree, independently of patch.diff, and also after it)
  meta.json   — {{"property": "{pid}", "summary": what you changed and why it looks innocent, "what_breaks": ..., "needs_to_manifest": ..., "files_changed": [...], "demo_test_name": ..., "demo_command": ..., "existing_tests_run": [commands and results], "demo_with_change": "fails: <message>", "demo_without_change": "passes"}}
Leave the worktree clean (git checkout -- . ; remove untracked files you added) when you are done, but keep the target directory. In your final answer, summarise the change in 5 lines and state exactly what you ran and what it printed.""")
