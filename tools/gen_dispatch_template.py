#!/usr/bin/env python3
"""tools/gen_dispatch_template.py — writes contracts/C19/plugin_dispatch.rs: stand-ins for every `module::Plugin::hook(qs, ..)` call made by
the Plugins::run_* dispatchers of server/lib/src/plugins/mod.rs (signature copied from the dispatcher that calls it). Run by hand when the
set of plugins changes; the template is a committed file, the dispatchers themselves are extracted from /repo on every run."""
import re, sys
src = open('/repo/server/lib/src/plugins/mod.rs').read()
i = src.index("impl Plugins {")
body = src[i:]
fns = list(re.finditer(r"pub fn (run_\w+)\(\s*(.*?)\)\s*(->\s*Result<\(\), OperationError>)?\s*\{", body, re.S))
plugins = {}   # module::Type -> code
hooks = {}     # (module, Type, hook) -> params text
SKIP = {"run_teardown_memorials", "run_build_memorials", "run_verify", "run_pre_repl_incremental", "run_pre_create"}
names = []
for k, m in enumerate(fns):
    name, params = m.group(1), " ".join(m.group(2).split())
    if name in SKIP or not m.group(3):
        continue
    end = fns[k + 1].start() if k + 1 < len(fns) else len(body)
    fbody = body[m.end():end]
    calls = re.findall(r"^\s*(\w+)::(\w+)::(\w+)\(", fbody, re.M)
    if not calls:
        continue
    names.append(name)
    for mod, ty, hook in calls:
        plugins.setdefault((mod, ty), len(plugins))
        hooks[(mod, ty, hook)] = params.rstrip(",")
out = []
out.append("""use vstd::prelude::*;
use core::cmp::Ordering;
verus! {
//@include shims/uuid.rs
pub enum OperationError { Backend, InvalidState }
// ---- opaque operands of the plugin hooks ----
pub struct EntryInvalid; pub struct EntryNew; pub struct EntrySealed; pub struct EntryCommitted;
#[verifier::reject_recursive_types(A)] #[verifier::reject_recursive_types(B)] pub struct Entry<A, B> { pub o: int, pub p: core::marker::PhantomData<(A, B)> }
pub type EntrySealedCommitted = Entry<EntrySealed, EntryCommitted>;
pub type EntryInvalidCommitted = Entry<EntryInvalid, EntryCommitted>;
pub struct EntryRefresh; pub type EntryRefreshNew = Entry<EntryRefresh, EntryNew>;
pub struct Arc<T> { pub v: T }
#[verifier::external_body] #[verifier::reject_recursive_types(T)] pub struct BTreeSet<T> { p: core::marker::PhantomData<T> }
pub struct CreateEvent { pub o: u8 } pub struct ModifyEvent { pub o: u8 } pub struct BatchModifyEvent { pub o: u8 } pub struct DeleteEvent { pub o: u8 }
// the write transaction, with a ghost record of the plugin hooks that ran in it: how many ran so far, and for each plugin (code
// below) the position at which it last ran
pub struct QueryServerWriteTransaction { pub o: int }
impl QueryServerWriteTransaction { pub uninterp spec fn count(&self) -> int; pub uninterp spec fn pos(&self, p: int) -> int; }
""")
for (mod, ty), code in plugins.items():
    out.append(f"pub open spec fn P_{mod.upper()}() -> int {{ {code} }}")
out.append("""// hook_ran(o, n, p): between states o and n exactly one more hook ran, that of plugin p
pub open spec fn hook_ran(o: QueryServerWriteTransaction, n: QueryServerWriteTransaction, p: int) -> bool {
    n.count() == o.count() + 1 && n.pos(p) == o.count() && forall|q: int| q != p ==> #[trigger] n.pos(q) == o.pos(q)
}
// between o and n (one dispatcher): plugin p ran / ran last / ran first / p ran before q
pub open spec fn ran_p(o: QueryServerWriteTransaction, n: QueryServerWriteTransaction, p: int) -> bool { o.count() <= n.pos(p) < n.count() }
pub open spec fn ran_last(o: QueryServerWriteTransaction, n: QueryServerWriteTransaction, p: int) -> bool { o.count() <= n.pos(p) && n.pos(p) == n.count() - 1 }
pub open spec fn ran_first(o: QueryServerWriteTransaction, n: QueryServerWriteTransaction, p: int) -> bool { n.pos(p) == o.count() && o.count() < n.count() }
pub open spec fn ran_before(o: QueryServerWriteTransaction, n: QueryServerWriteTransaction, p: int, q: int) -> bool { o.count() <= n.pos(p) < n.pos(q) < n.count() }
// ---- one stand-in per plugin hook the dispatchers call: it runs (a successful hook is logged; a failing one ends the dispatcher) ----""")
bymod = {}
for (mod, ty, hook), params in hooks.items():
    bymod.setdefault((mod, ty), []).append((hook, params))
for (mod, ty), hs in bymod.items():
    out.append(f"pub mod {mod} {{ use super::*; pub struct {ty}; impl {ty} {{")
    for hook, params in hs:
        out.append(f"    #[verifier::external_body] pub fn {hook}({params}) -> (r: Result<(), OperationError>)\n        ensures r is Ok ==> hook_ran(*old(qs), *final(qs), P_{mod.upper()}()) {{ unimplemented!() }}")
    out.append("} }")
out.append("pub struct Plugins;\nimpl Plugins {")
for n in names:
    out.append(f"//@extract {n}")
out.append("}\n}\nfn main(){}")
open('/verif/contracts/C19/plugin_dispatch.rs', 'w').write("\n".join(out) + "\n")
print("dispatchers:", names)
print("plugins:", {f"{m}::{t}": c for (m, t), c in plugins.items()})
