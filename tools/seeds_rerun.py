#!/usr/bin/env python3
"""tools/seeds_rerun.py — run every kept seed (seeded/<tag>/patch.diff) against the check of its property on a mutated copy of /repo
and compare the verdict with the one recorded in meta.json (caught = exit 1, missed = exit 0, undecided = exit 2)."""
import glob, json, subprocess, sys
want = {"caught": 1, "missed": 0, "undecided": 2}
bad = []
for f in sorted(glob.glob('/verif/seeded/*/meta.json')):
    tag = f.split('/')[-2]
    d = json.load(open(f))
    rec = d.get('detected_by', {}).get('result', '?')
    rec = rec if rec in want else 'caught'
    prop = d.get('detected_by', {}).get('via_property') or d.get('property', tag[:3])
    p = subprocess.run(['/verif/tools/mutrun', prop, f'/verif/seeded/{tag}/patch.diff'], capture_output=True, text=True, cwd='/verif')
    rc = p.returncode
    ok = (rc == want[rec]) or (rec == 'missed' and rc == 2) or (rec == 'undecided' and rc == 1)
    print(f"{tag:6} recorded={rec:9} exit={rc} {'ok' if ok else 'CHANGED'}", flush=True)
    if not ok:
        bad.append(tag)
print("CHANGED", bad)
