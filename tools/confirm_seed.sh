#!/bin/sh
# tools/confirm_seed.sh <id> <crate> <demo-test-filter> [extra cargo args]
# In the seed's scratch worktree /tmp/wt-<id>: (1) demo alone passes on the unchanged code; (2) with the change applied the
# whole --lib suite of the crate is run: the only failure must be the demo.
ID=$1; CRATE=$2; DEMO=$3; shift 3
WT=/tmp/wt-$ID
cd $WT || exit 2
export CARGO_TARGET_DIR=$WT/target CARGO_NET_OFFLINE=true
git checkout -q -- . && git clean -fdq -e target && git apply /tmp/seeds/$ID/demo.diff || { echo "demo.diff does not apply"; exit 2; }
echo "== [$ID] demo WITHOUT change"; cargo +1.96.0 test --offline -p $CRATE "$@" $DEMO 2>&1 | grep -E "^test .*(ok|FAILED)|test result|^error" | head -8
git apply /tmp/seeds/$ID/patch.diff || { echo "patch.diff does not apply"; exit 2; }
echo "== [$ID] whole suite of $CRATE WITH change + demo"; cargo +1.96.0 test --offline -p $CRATE "$@" 2>&1 | grep -E "^test .*FAILED|test result|^error|panicked" | head -12
git checkout -q -- . ; git clean -fdq -e target
