#!/bin/sh
# tools/confirm_seed.sh <id> <crate> <demo-test-filter> [existing-test-filter]
# confirms in the seed's scratch worktree: demo passes without the change, fails with it; existing tests still pass with it.
ID=$1; CRATE=$2; DEMO=$3; EXIST=${4:-}
WT=/tmp/wt-$ID
cd $WT || exit 2
export CARGO_TARGET_DIR=$WT/target CARGO_NET_OFFLINE=true
git checkout -q -- . && git apply /tmp/seeds/$ID/demo.diff || { echo "demo.diff does not apply"; exit 2; }
echo "== demo WITHOUT change"; cargo +1.96.0 test --offline -p $CRATE --lib $DEMO 2>&1 | grep -E "^test |test result|error" | head -8
git apply /tmp/seeds/$ID/patch.diff || { echo "patch.diff does not apply"; exit 2; }
echo "== demo WITH change"; cargo +1.96.0 test --offline -p $CRATE --lib $DEMO 2>&1 | grep -E "^test |test result|error" | head -8
if [ -n "$EXIST" ]; then echo "== existing tests WITH change ($EXIST)"; cargo +1.96.0 test --offline -p $CRATE --lib $EXIST 2>&1 | grep -E "test result|FAILED|failed" | head -8; fi
