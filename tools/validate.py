#!/opt/veriftools/pyvenv/bin/python
import json, jsonschema, glob, sys
jsonschema.validate(json.load(open('/verif/MANIFEST.json')), json.load(open('/root/.vp/MANIFEST.schema.json')))
sch = json.load(open('/root/.vp/EVIDENCE.schema.json'))
for f in sorted(glob.glob('/verif/evidence/*.json')):
    jsonschema.validate(json.load(open(f)), sch)
print('manifest + evidence valid')
