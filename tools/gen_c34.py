#!/usr/bin/env python3
"""Generate the five key-object units of C34 from one description (they are structurally identical in /repo)."""
import os
V = os.path.dirname(os.path.dirname(os.path.abspath(__file__)))
TYPES = [
    # unit, object struct, inner struct, status enum, getter, getter closure ret, lookup fn (verify/decipher) or None, arg name, arg kid expr, revoke_again_true
    dict(u="es256", obj="KeyObjectInternalJwtEs256", inner="InternalJwtEs256", st="InternalJwtEs256Status", get="get_valid_signer", gty="JwsEs256Signer", use="verify", arg="jwsc", revoke_idem=True),
    dict(u="rs256", obj="KeyObjectInternalJwtRs256", inner="InternalJwtRs256", st="InternalJwtRs256Status", get="get_valid_signer", gty="JwsRs256Signer", use="verify", arg="jwsc", revoke_idem=True),
    dict(u="hs256", obj="KeyObjectInternalJwtHs256", inner="InternalJwtHs256", st="InternalJwtHs256Status", get="get_valid_signer", gty="JwsHs256Signer", use="verify", arg="jwsc", revoke_idem=False),
    dict(u="jwe_a128gcm", obj="KeyObjectInternalJweA128GCM", inner="InternalJweA128GCM", st="InternalJweA128GCMStatus", get="get_valid_cipher", gty="JweA128KWEncipher", use="decipher", arg="jwec", revoke_idem=True),
    dict(u="hkdf_s256", obj="KeyObjectInternalHkdfS256", inner="InternalHkdfS256", st="InternalHkdfS256Status", get="get_valid_signer", gty="HmacSha256Key", use=None, arg=None, revoke_idem=False),
]
TPL = '''use vstd::prelude::*;
use core::cmp::Ordering;
verus! {
//@include shims/duration.rs
//@include shims/duration_ops.rs
//@include shims/uuid.rs
//@include shims/kvx_btreemap.rs
//@include shims/keys_common.rs
//@extract %(st)s
//@extract %(inner)s
//@extract %(obj)s

// ---- specification from the statement of C34 ----
pub open spec fn revoked(k: %(inner)s) -> bool { k.status is Revoked }
pub open spec fn status_matches(k: %(inner)s, s: KeyStatus) -> bool {
    match s { KeyStatus::Valid => k.status is Valid, KeyStatus::Retained => k.status is Retained, KeyStatus::Revoked => k.status is Revoked }
}
// rotation / activation only inserts: every existing key is untouched, or (identifier collision) replaced by the new valid key
pub open spec fn only_inserts(old_all: Map<KeyId, %(inner)s>, new_all: Map<KeyId, %(inner)s>, vf: u64) -> bool {
    forall|j: KeyId| #[trigger] old_all.contains_key(j) ==> new_all.contains_key(j) && (new_all[j] == old_all[j] || (new_all[j].status is Valid && new_all[j].valid_from == vf))
}

impl %(obj)s {
//@extract %(get)s
//@extract assert_active
//@extract new_active
//@extract revoke
//@extract load
%(use_extract)s
}
}
fn main(){}
'''
SC = '''property  = "C34"
unit      = "key_object_%(u)s"
backend   = "verus"
crate_src = ["server/lib/src", "proto/src"]
template  = "key_object_%(u)s.rs"
rlimit    = 60
assumptions = [
  "BTreeMap stand-in (shims/kvx_btreemap.rs: get / get_mut / insert / remove / range(..=t).next_back with the documented std semantics; Borrow<str> lookups denote one KeyId)",
  "compact_jwt / crypto_glue signers, verifiers, ciphers and keys are opaque values; signature verification and decryption are unconstrained (a revoked or unknown key is rejected BEFORE they are consulted)",
  "KeyId::from(&str) is an uninterpreted function of the string (truncation to KID_LEN)",
]
not_covered = [
  "KeyObjectInternal::{rotate_keys, revoke_keys, jws_verify, jwe_decrypt} dispatch (unit key_object_dispatch), KeyObjectInternal::as_valuesets / the keyobject plugin (storing and reloading the key value set: C11's merge contract says a stored revocation survives merges)",
  "to_key_iter / public_jwks (iterator chains), import of legacy keys",
  "the cryptography itself",
]

[[item]]
path = "OperationError"
kind = "enum"
derives = []
[[item]]
path = "KeyStatus"
kind = "enum"
derives = ["Clone", "Copy", "PartialEq", "Eq"]
[[item]]
path = "%(st)s"
kind = "enum"
derives = []
[[item]]
path = "%(inner)s"
kind = "struct"
derives = []
[[item]]
path = "%(obj)s"
kind = "struct"
derives = []

[[fn]]
id = "%(get)s"
path = "%(obj)s::%(get)s"
ret = "r"
ensures = [
  "r matches Some(s) ==> exists|k: u64| k <= time.secs && #[trigger] self.active@.contains_key(k) && self.active@[k] == *s && (forall|k2: u64| #[trigger] self.active@.contains_key(k2) && k2 <= time.secs ==> k2 <= k)",
  "r is None ==> forall|k: u64| #[trigger] self.active@.contains_key(k) ==> k > time.secs",
]
[[fn.closure]]
ordinal = 0
ret = "o: &%(gty)s"
ensures = ["o == kvx_p0_0.1"]

[[fn]]
id = "assert_active"
path = "%(obj)s::assert_active"
ret = "r"
ensures = ["only_inserts(old(self).all@, final(self).all@, valid_from.secs)"]

[[fn]]
id = "new_active"
path = "%(obj)s::new_active"
ret = "r"
ensures = ["only_inserts(old(self).all@, final(self).all@, valid_from.secs)"]

[[fn]]
id = "revoke"
path = "%(obj)s::revoke"
ret = "r"
ensures = [
  "r is Ok && old(self).all@.contains_key(revoke_key_id.as_key()) ==> (final(self).all@.contains_key(revoke_key_id.as_key()) && revoked(final(self).all@[revoke_key_id.as_key()]))",
  "r matches Ok(true) ==> (old(self).all@.contains_key(revoke_key_id.as_key()) && final(self).active@ == old(self).active@.remove(old(self).all@[revoke_key_id.as_key()].valid_from))",
  "r is Ok ==> forall|j: KeyId| j != revoke_key_id.as_key() ==> (#[trigger] final(self).all@.contains_key(j) == old(self).all@.contains_key(j) && (old(self).all@.contains_key(j) ==> final(self).all@[j] == old(self).all@[j]))",
  "r matches Ok(false) ==> (final(self).all@ == old(self).all@ && final(self).active@ == old(self).active@)",
  "r is Err ==> final(self).all@ =~= old(self).all@",
  "#aux r matches Ok(true) ==> final(self).all@[revoke_key_id.as_key()].valid_from == old(self).all@[revoke_key_id.as_key()].valid_from && final(self).all@[revoke_key_id.as_key()].status_cid == *cid",
%(revoke_extra)s]

[[fn]]
id = "load"
path = "%(obj)s::load"
ret = "r"
ensures = [
  "r is Ok ==> (final(self).all@.contains_key(*id) && status_matches(final(self).all@[*id], status) && final(self).all@ == old(self).all@.insert(*id, final(self).all@[*id]))",
  "r is Ok && !(status is Valid) ==> final(self).active@ == old(self).active@",
  "#aux r is Ok ==> final(self).all@[*id].valid_from == valid_from && final(self).all@[*id].status_cid == status_cid",
  "#aux r is Err ==> final(self).all@ == old(self).all@",
]
%(use_fn)s'''
USE_FN = '''
[[fn]]
id = "%(use)s"
path = "%(obj)s::%(use)s"
ret = "r"
ensures = [
  "r is Ok ==> (%(arg)s.kid_spec() matches Some(s) && self.all@.contains_key(kid_from(s)) && !revoked(self.all@[kid_from(s)]))",
]
[[fn.closure]]
ordinal = 0
ret = "o: Option<&%(inner)s>"
ensures = ["o is Some == self.all@.contains_key(kid)", "o is Some ==> *o->Some_0 == self.all@[kid]"]
'''
for t in TYPES:
    t = dict(t)
    t["use_extract"] = f"//@extract {t['use']}" if t["use"] else ""
    t["use_fn"] = (USE_FN % t) if t["use"] else ""
    t["revoke_extra"] = '  "#aux r matches Ok(b) ==> (b == old(self).all@.contains_key(revoke_key_id.as_key()))",\n' if t["revoke_idem"] else '  "#aux r matches Ok(b) ==> (b == (old(self).all@.contains_key(revoke_key_id.as_key()) && !revoked(old(self).all@[revoke_key_id.as_key()])))",\n'
    d = os.path.join(V, "contracts", "C34")
    os.makedirs(d, exist_ok=True)
    open(os.path.join(d, f"key_object_{t['u']}.rs"), "w").write(TPL % t)
    open(os.path.join(d, f"key_object_{t['u']}.toml"), "w").write(SC % t)
print("generated", len(TYPES))
