#!/bin/sh
# tools/mkwt.sh <name> — scratch worktree of /repo at /tmp/wt-<name> with a warm target dir (deps prebuilt), for seeding agents
set -e
N=$1
WT=/tmp/wt-$N
[ -d $WT ] && { echo "$WT exists"; exit 0; }
git -C /repo worktree add --detach $WT HEAD >/dev/null 2>&1
mkdir -p $WT/target/debug
for d in build deps .fingerprint; do [ -d /verif/.cache/test-target/debug/$d ] && cp -a /verif/.cache/test-target/debug/$d $WT/target/debug/ ; done
cp /verif/.cache/test-target/CACHEDIR.TAG $WT/target/ 2>/dev/null || true
mkdir -p /tmp/seeds/$N
echo $WT
