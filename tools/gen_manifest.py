#!/usr/bin/env python3
import json, os, tomllib, sys
V = os.path.dirname(os.path.dirname(os.path.abspath(__file__)))
claims = tomllib.load(open(os.path.join(V, "claims.toml"), "rb"))
na = tomllib.load(open(os.path.join(V, "na.toml"), "rb"))
props = [json.loads(l) for l in open(os.path.join(V, "properties.jsonl"))]
checks, nas = [], []
for p in props:
    pid = p["id"]
    c = claims.get(pid)
    if c and c.get("ready") and os.path.isdir(os.path.join(V, "contracts", pid)):
        checks.append({
            "property_id": pid,
            "quick_cmd": f"./check {pid} --tier quick",
            "thorough_cmd": f"./check {pid} --tier thorough",
            "evidence_file": f"/verif/evidence/{pid}.json",
            "replay_cmd_template": f"./check {pid} --replay {{path}}",
            "engine": "kvx+verus" + ("+kani" if c.get("kani") or any(f.endswith("kani.toml") for f in os.listdir(os.path.join(V, "contracts", pid))) else ""),
            "level_claimed": {"category": c["category"], "text": c["text"], "design_ref": c.get("design_ref", "DESIGN.md §5")},
            "level_note": c["note"],
            "technique": c["technique"],
        })
    else:
        if pid in na:
            reason = na[pid]["reason"]
        elif c:
            reason = c.get("pending_reason", "contract unit designed (DESIGN.md §5) but not yet discharged end-to-end; not claimed until its obligations verify on the pinned tree")
        else:
            reason = "no contract within reach of the installed verifiers expresses this property (see DESIGN.md §6)"
        nas.append({"property_id": pid, "reason": reason})
m = {
    "version": 1,
    "setup_cmd": "./setup.sh",
    "hooks": {
        "guard": "cfg(kani) — set only by cargo-kani; contract attributes and harness modules are woven into a scratch copy of /repo at check time, never into /repo",
        "enable": "none needed: /repo carries no hooks; every check copies /repo's current working tree (rsync) or reads it (kvx) and weaves there",
        "baseline_off_cmd": "cd /repo && cargo +1.96.0 test --workspace --no-fail-fast --offline",
        "source_commits": [],
        "add_only": True,
    },
    "engines": [
        {"name": "kvx+verus", "path": "/verif/check", "serves_properties": [c["property_id"] for c in checks],
         "kind_free_text": "contract-based deductive verification: function text extracted from /repo on every run by a syn-based indexer (byte spans), requires/ensures/invariants woven from contracts/<id>/*.toml, discharged by Verus/Z3"},
        {"name": "kani", "path": "/verif/lib/kani_route.py", "serves_properties": [c["property_id"] for c in checks if "kani" in c["engine"]],
         "kind_free_text": "Kani function contracts and loop-free full-domain harnesses on the real crates, in a scratch copy of /repo; concrete counterexamples replayed as plain #[test]s against the real code"},
    ],
    "checks": checks,
    "notes": "Exit codes of ./check: 0 pass, 1 VIOLATION (a property obligation fails with a verification verdict), 2 undecided (anchor lost / unit does not compile / solver limit) — never an alarm. See DESIGN.md.",
    "not_applicable": nas,
}
json.dump(m, open(os.path.join(V, "MANIFEST.json"), "w"), indent=1)
print(f"{len(checks)} checks, {len(nas)} not_applicable")
