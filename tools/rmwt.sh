#!/bin/sh
# tools/rmwt.sh <name> — remove scratch worktree and its build output
for N in "$@"; do git -C /repo worktree remove --force /tmp/wt-$N 2>/dev/null; rm -rf /tmp/wt-$N; done
git -C /repo worktree prune
