#!/bin/sh
# tools/rederive.sh — regenerate the derived sidecars whose base changed (keep-regex recorded here; not_covered taken from the existing file)
cd /verif
nc() { python3 -c "import tomllib,sys; print(tomllib.load(open(sys.argv[1],'rb'))['not_covered'][0])" "$1"; }
python3 tools/derive_unit.py contracts/C38/authorise.toml contracts/C39/token_exchange.toml C39 token_exchange \
  'exchange_ok|refresh_ok|refresh_replayed|sha256|payload::<Oauth2TokenType>|jwe.payload::<TokenExchangeCode>\(\) && jwe.sealed_as|map.map\(\)|ServerError\(e\)' \
  --not-covered "$(nc contracts/C39/token_exchange.toml)"
python3 tools/derive_unit.py contracts/C23/ldap_compare.toml contracts/C40/ldap_compare.toml C40 ldap_compare 'exists_sem' \
  --not-covered "LdapServer::do_search (attribute mapping, SearchEvent construction: the LDAP/native equivalence for searches is not under contract), Filter::from_ldap_ro itself; do_op dispatch (that no LDAP operation reaches a write transaction) is covered only by the absence of a write path in the extracted functions, not by a contract"
python3 tools/derive_unit.py contracts/C09/merge_state.toml contracts/C08/merge_state.toml C08 merge_state 'live_merge_lww|cid_min|lww_val|is_ts\(r\.valid|r\.valid\.ecstate ==|stored_survives|all_states_at|schema_valid|conflict_marked' \
  --not-covered "everything around the pairwise merge: consumer_incremental_apply_entries / supplier_provide_changes (which entries and attribute states travel), resolve_add_conflict and the conflict entries, validate_repl, the post-replication plugins (attrunique, refint, memberof), refresh; convergence of the whole system is a protocol-level property outside per-function contracts — this unit proves the algebra of one merge step (last writer wins per attribute, order independent)"
python3 tools/derive_unit.py contracts/C10/supplier_mapping.toml contracts/C09/supplier_supply.toml C09 supplier_supply 'reply_supplies_all|incr_of' \
  --not-covered "be::retrieve_range (WHICH entries fall inside the windows) and ReplIncrementalEntryV1::new (which attribute states of an entry are sent); the consumer side applying every supplied entry (consumer_apply_changes); supplier_provide_refresh"
python3 tools/derive_unit.py contracts/C26/lifecycle.toml contracts/C23/hidden_wrapper.toml C23 hidden_wrapper 'fc_match\(r' \
  --not-covered "that every search / exists / LDAP entry point builds its executed filter with into_ignore_hidden (the event constructors), and into_recycled for recycle-bin searches"
python3 tools/derive_unit.py contracts/C26/write_txn.toml contracts/C07/txn_steps.toml C07 txn_steps 'stored_ok|stored_ts_max|cid_max\.max\.ts\.dlt|max_ts\.dlt\(r\.ts\)' \
  --not-covered "QueryServer::new (reseeding cid_max from the stored ts_max at start-up), that cid.commit() publishes the new maximum to later transactions (CowCell semantics), replication applying remote change ids"
python3 tools/derive_unit.py contracts/C26/write_txn.toml contracts/C04/commit_order.toml C04 commit_order 'stored_ok' \
  --not-covered "everything else in C04: operations that fail before commit (abandoned transactions are dropped: Drop of the CowCell / SQLite handles, not under contract), IdmServerProxyWriteTransaction::commit, the id-layer cache commits, storage faults inside the backend (C05)" \
  --append contracts/C04/commit_order.append.txt
python3 tools/derive_unit.py contracts/C23/search_events.toml contracts/C26/search_events.toml C26 search_events 'visibility_ok' \
  --not-covered "the other event types and front ends (see the C23 unit), delete / revive"
python3 tools/derive_unit.py contracts/C27/handler_selection.toml contracts/C49/authsession_new.toml C49 authsession_new 'valid_at' \
  --not-covered "auth_ldap, OAuth2 drivers (other authentication paths of C49: see the other units; auth_with_unix_pass: unit unix_pass_auth)"
python3 tools/derive_unit.py contracts/C44/cached_password.toml contracts/C45/offline_record.toml C45 offline_record 'latest_record' \
  --not-covered "Resolver::pam_account_authenticate_step storing the returned token, the online step's merge of extra keys, cache expiry and refresh (how current the cached record is)"
python3 tools/derive_unit.py contracts/C27/handler_selection.toml contracts/C33/reauth_session.toml C33 reauth_session 'reauth_intent_ok|reauth_handler_ok' \
  --not-covered "reauth_init (that the session is PrivilegeCapable and its credential id is the one passed here; soft-lock set-up), AuthSession::validate_creds / issue_uat for the Reauth intent (issue_uat: unit privilege_window)"
python3 tools/derive_unit.py contracts/C02/optimise.toml contracts/C01/optimise.toml C01 optimise 'sem_eq|fr_eq|inner_' \
  --not-covered "Filter::resolve / resolve_idx (SelfUuid resolution, slope annotation) around optimise; see the C01 units for filter2idl and the entry-level test"
python3 tools/derive_unit.py contracts/C08/consumer_apply.toml contracts/C09/consumer_apply.toml C09 consumer_apply 'applied_ok' \
  --not-covered "what incremental_apply and the plugins then do; Entry::merge_state's tombstone arms (unit merge_state), the supplier side (unit supplier_supply), reap / trim timing (C26 units); the induction from 'every incoming state is merged and written, none filtered out' to 'no schedule resurrects a deleted entry'"
for spec in "C16 P_REFINT\(\)\)" "C17 P_MEMBEROF" "C20 P_BASE" "C21 P_GIDNUMBER" "C22 P_SPN" "C36 P_SESSION"; do
  set -- $spec
  python3 tools/derive_unit.py contracts/C19/plugin_dispatch.toml contracts/$1/plugin_dispatch.toml $1 plugin_dispatch "$2" \
    --not-covered "that the server's write paths call these dispatchers at the right points; what each hook does (the other units of this property)"
done
