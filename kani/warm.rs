#[kani::proof]
fn verif_warm() {
    let x: u8 = kani::any();
    assert!(x as u16 + 1 > x as u16);
}
