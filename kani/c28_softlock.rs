// Kani harnesses on the REAL kanidmd_lib::credential::softlock (child module: sees private LockState).
// Domain: times below 2^32 s (year 2106) so that CBMC's constant-divisor `% 86400` stays cheap; counts below 10^6.
use super::*;

fn any_ct() -> Duration {
    let s: u64 = kani::any();
    let n: u32 = kani::any();
    kani::assume(s < 4_294_967_296 && n < 1_000_000_000);
    Duration::new(s, n)
}

// C28 sentence 1 on the real code: after a recorded password failure the credential is refused
// (is_valid() == false) at every time up to and including its unlock time, absent an administrator expiry.
#[kani::proof]
fn refused_until_unlock_password() {
    let count: usize = kani::any();
    kani::assume(count >= 1 && count < 1_000_000);
    let ct0 = any_ct();
    let st = CredSoftLockPolicy::Password.failure_next_state(count, ct0);
    let unlock_at = match &st { LockState::Locked { unlock_at, .. } => *unlock_at, _ => { assert!(false); Duration::ZERO } };
    let mut l = CredSoftLock { state: st, policy: CredSoftLockPolicy::Password, last_expire_at: Duration::from_secs(0) };
    let ct1 = any_ct();
    kani::assume(ct1 >= ct0 && ct1 <= unlock_at);
    l.apply_time_step(ct1, None);
    assert!(!l.is_valid());
    kani::cover!(ct1 > ct0);
}

// window shape of the password policy on the real code
#[kani::proof]
fn password_window_shape() {
    let count: usize = kani::any();
    kani::assume(count >= 1 && count < 1_000_000);
    let ct = any_ct();
    match CredSoftLockPolicy::Password.failure_next_state(count, ct) {
        LockState::Locked { count: c, reset_at, unlock_at } => {
            assert!(c == count);
            assert!(unlock_at > ct && reset_at > ct);
            assert!(unlock_at <= reset_at);
            assert!(reset_at.subsec_nanos() == 0 && reset_at.as_secs() % 86400 == 0 && reset_at.as_secs() - ct.as_secs() <= 86400);
            if count >= 100 { assert!(unlock_at == reset_at); }
        }
        _ => assert!(false),
    }
}

// TOTP policy with the default 30 s step
#[kani::proof]
fn totp_window_shape_step30() {
    let count: usize = kani::any();
    kani::assume(count >= 1 && count < 1_000_000);
    let ct = any_ct();
    match CredSoftLockPolicy::Totp(30).failure_next_state(count, ct) {
        LockState::Locked { count: c, reset_at, unlock_at } => {
            assert!(c == count);
            assert!(unlock_at > ct && reset_at > ct && unlock_at <= reset_at);
            assert!(reset_at.subsec_nanos() == 0 && reset_at.as_secs() % 30 == 0 && reset_at.as_secs() - ct.as_secs() <= 30);
            if count >= 3 { assert!(unlock_at == reset_at); }
        }
        _ => assert!(false),
    }
}

// the count changes only by +1 on a failure and only to zero on a reset; a time step never re-locks
#[kani::proof]
fn time_step_keeps_count() {
    let count: usize = kani::any();
    kani::assume(count >= 1 && count < 1_000_000);
    let reset_at = any_ct();
    let unlock_at = any_ct();
    let locked: bool = kani::any();
    let st = if locked { LockState::Locked { count, reset_at, unlock_at } } else { LockState::Unlocked(count, reset_at) };
    let mut l = CredSoftLock { state: st, policy: CredSoftLockPolicy::Password, last_expire_at: Duration::from_secs(0) };
    let ct = any_ct();
    l.apply_time_step(ct, None);
    match &l.state {
        LockState::Init => assert!(ct > reset_at),
        LockState::Locked { count: c, reset_at: r, unlock_at: u } => assert!(locked && *c == count && *r == reset_at && *u == unlock_at && ct <= unlock_at),
        LockState::Unlocked(c, r) => assert!(*c == count && *r == reset_at && (!locked || ct > unlock_at)),
    }
}
