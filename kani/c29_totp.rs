// Kani harnesses on the real kanidmd_lib::credential::totp (C29): Totp::digest is RFC 4226 §5.3 dynamic truncation of the HMAC
// value returned by TotpAlgo::digest, reduced modulo 10^digits — for ALL HMAC outputs, counters and both digit counts.
// TotpAlgo::digest (the HMAC itself) is replaced by a stub returning symbolic bytes: cryptography is assumed, truncation is proved.
use super::*;

static mut H20: [u8; 20] = [0; 20];
static mut H32: [u8; 32] = [0; 32];
static mut H64: [u8; 64] = [0; 64];
static mut C_EXPECT: u64 = 0;
static mut FAIL: bool = false;

fn stub_digest(algo: TotpAlgo, _key: &[u8], counter: u64) -> Result<Vec<u8>, TotpError> {
    unsafe {
        if FAIL || counter != C_EXPECT {
            return Err(TotpError::InvalidKeyError);
        }
        Ok(match algo {
            TotpAlgo::Sha1 => H20.to_vec(),
            TotpAlgo::Sha256 => H32.to_vec(),
            TotpAlgo::Sha512 => H64.to_vec(),
        })
    }
}

// RFC 4226 §5.3, written from the RFC text: offset = low nibble of the last byte; P = the 31 low bits of the 4 bytes at offset
fn rfc4226(h: &[u8], modulus: u32) -> u32 {
    let o = (h[h.len() - 1] & 0x0f) as usize;
    let p = ((h[o] as u32 & 0x7f) << 24) | ((h[o + 1] as u32) << 16) | ((h[o + 2] as u32) << 8) | (h[o + 3] as u32);
    p % modulus
}

fn any_digits() -> (TotpDigits, u32) {
    if kani::any() { (TotpDigits::Six, 1_000_000) } else { (TotpDigits::Eight, 100_000_000) }
}

#[kani::proof]
#[kani::stub(TotpAlgo::digest, stub_digest)]
#[kani::unwind(22)]
fn digest_is_rfc4226_sha1() {
    let h: [u8; 20] = kani::any();
    let c: u64 = kani::any();
    let (d, m) = any_digits();
    unsafe { H20 = h; C_EXPECT = c; FAIL = false; }
    let t = Totp::new(vec![1u8], 30, TotpAlgo::Sha1, d);
    assert!(t.digest(c) == Ok(rfc4226(&h, m)));
}

#[kani::proof]
#[kani::stub(TotpAlgo::digest, stub_digest)]
#[kani::unwind(34)]
fn digest_is_rfc4226_sha256() {
    let h: [u8; 32] = kani::any();
    let c: u64 = kani::any();
    let (d, m) = any_digits();
    unsafe { H32 = h; C_EXPECT = c; FAIL = false; }
    let t = Totp::new(vec![1u8], 30, TotpAlgo::Sha256, d);
    assert!(t.digest(c) == Ok(rfc4226(&h, m)));
}

#[kani::proof]
#[kani::stub(TotpAlgo::digest, stub_digest)]
#[kani::unwind(66)]
fn digest_is_rfc4226_sha512() {
    let h: [u8; 64] = kani::any();
    let c: u64 = kani::any();
    let (d, m) = any_digits();
    unsafe { H64 = h; C_EXPECT = c; FAIL = false; }
    let t = Totp::new(vec![1u8], 30, TotpAlgo::Sha512, d);
    assert!(t.digest(c) == Ok(rfc4226(&h, m)));
}

// an HMAC failure is passed on as an error: no code is produced
#[kani::proof]
#[kani::stub(TotpAlgo::digest, stub_digest)]
#[kani::unwind(22)]
fn digest_propagates_hmac_error() {
    let c: u64 = kani::any();
    let (d, _m) = any_digits();
    unsafe { FAIL = true; }
    let t = Totp::new(vec![1u8], 30, TotpAlgo::Sha1, d);
    assert!(t.digest(c).is_err());
}
