// Kani harnesses on the real kanidmd_lib::credential::totp (C29): Totp::digest is RFC 4226 §5.3 dynamic truncation of the HMAC
// value returned by TotpAlgo::digest, reduced modulo 10^digits — for ALL HMAC outputs, counters and both digit counts.
// TotpAlgo::digest (the HMAC itself) is replaced by a stub returning symbolic bytes: cryptography is assumed, truncation is proved.
use super::*;

static mut H20: [u8; 20] = [0; 20];
static mut H32: [u8; 32] = [0; 32];
static mut H64: [u8; 64] = [0; 64];
static mut C_EXPECT: u64 = 0;
static mut FAIL: bool = false;

fn stub_digest(algo: TotpAlgo, _key: &[u8], counter: u64) -> Result<Vec<u8>, TotpError> {
    unsafe {
        if FAIL || counter != C_EXPECT {
            return Err(TotpError::InvalidKeyError);
        }
        Ok(match algo {
            TotpAlgo::Sha1 => H20.to_vec(),
            TotpAlgo::Sha256 => H32.to_vec(),
            TotpAlgo::Sha512 => H64.to_vec(),
        })
    }
}

// RFC 4226 §5.3, written from the RFC text: offset = low nibble of the last byte; P = the 31 low bits of the 4 bytes at offset
fn rfc4226(h: &[u8], modulus: u32) -> u32 {
    let o = (h[h.len() - 1] & 0x0f) as usize;
    let p = ((h[o] as u32 & 0x7f) << 24) | ((h[o + 1] as u32) << 16) | ((h[o + 2] as u32) << 8) | (h[o + 3] as u32);
    p % modulus
}

fn any_digits() -> (TotpDigits, u32) {
    if kani::any() { (TotpDigits::Six, 1_000_000) } else { (TotpDigits::Eight, 100_000_000) }
}

#[kani::proof]
#[kani::stub(TotpAlgo::digest, stub_digest)]
#[kani::unwind(22)]
fn digest_is_rfc4226_sha1() {
    let h: [u8; 20] = kani::any();
    let c: u64 = kani::any();
    let (d, m) = any_digits();
    unsafe { H20 = h; C_EXPECT = c; FAIL = false; }
    let t = Totp::new(vec![1u8], 30, TotpAlgo::Sha1, d);
    assert!(t.digest(c) == Ok(rfc4226(&h, m)));
}

#[kani::proof]
#[kani::stub(TotpAlgo::digest, stub_digest)]
#[kani::unwind(34)]
fn digest_is_rfc4226_sha256() {
    let h: [u8; 32] = kani::any();
    let c: u64 = kani::any();
    let (d, m) = any_digits();
    unsafe { H32 = h; C_EXPECT = c; FAIL = false; }
    let t = Totp::new(vec![1u8], 30, TotpAlgo::Sha256, d);
    assert!(t.digest(c) == Ok(rfc4226(&h, m)));
}

#[kani::proof]
#[kani::stub(TotpAlgo::digest, stub_digest)]
#[kani::unwind(66)]
fn digest_is_rfc4226_sha512() {
    let h: [u8; 64] = kani::any();
    let c: u64 = kani::any();
    let (d, m) = any_digits();
    unsafe { H64 = h; C_EXPECT = c; FAIL = false; }
    let t = Totp::new(vec![1u8], 30, TotpAlgo::Sha512, d);
    assert!(t.digest(c) == Ok(rfc4226(&h, m)));
}

// an HMAC failure is passed on as an error: no code is produced
#[kani::proof]
#[kani::stub(TotpAlgo::digest, stub_digest)]
#[kani::unwind(22)]
fn digest_propagates_hmac_error() {
    let c: u64 = kani::any();
    let (d, _m) = any_digits();
    unsafe { FAIL = true; }
    let t = Totp::new(vec![1u8], 30, TotpAlgo::Sha1, d);
    assert!(t.digest(c).is_err());
}

// ---- bounded counterexample twin for Totp::verify (runs when the Verus unit fails or can no longer read the function) ----
// The HMAC-derived code is an arbitrary function of the counter: code(c) for the current counter, code(c-1) for the previous one,
// and a third arbitrary value for every other counter. verify must accept exactly code(c) and code(c-1).
static mut K_CUR: u64 = 0;
static mut V_CUR: u32 = 0;
static mut V_PREV: u32 = 0;
static mut V_OTHER: u32 = 0;
fn stub_code(_t: &Totp, counter: u64) -> Result<u32, TotpError> {
    unsafe {
        if counter == K_CUR { Ok(V_CUR) } else if counter + 1 == K_CUR { Ok(V_PREV) } else { Ok(V_OTHER) }
    }
}
#[kani::proof]
#[kani::stub(Totp::digest, stub_code)]
#[kani::unwind(4)]
fn verify_accepts_exactly_current_and_previous_bounded() {
    // BOUNDED domain: step in {30, 60, 90, 300}, time below 2^20 seconds (64-bit division by a symbolic step is beyond CBMC here)
    let step: u64 = match kani::any::<u8>() % 4 { 0 => 30, 1 => 60, 2 => 90, _ => 300 };
    let secs: u64 = kani::any();
    kani::assume(secs >= step && secs < (1 << 20));
    let (vc, vp, vo): (u32, u32, u32) = (kani::any(), kani::any(), kani::any());
    let chal: u32 = kani::any();
    unsafe { K_CUR = secs / step; V_CUR = vc; V_PREV = vp; V_OTHER = vo; }
    let t = Totp::new(vec![1u8], step, TotpAlgo::Sha1, TotpDigits::Six);
    let r = t.verify(chal, Duration::from_secs(secs));
    if chal == vc || chal == vp { assert!(r); }
    if chal != vc && chal != vp && chal != vo { assert!(!r); }
}
