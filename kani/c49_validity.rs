// Kani harness on the REAL Account::check_within_valid_time with the real time::OffsetDateTime.
// Also checks the stand-in contract the Verus units assume: OffsetDateTime order == order of unix_timestamp_nanos,
// and (UNIX_EPOCH + d).unix_timestamp_nanos() == d.as_nanos().
use super::*;

#[kani::proof]
#[kani::unwind(3)]
fn within_valid_time_matches_window() {
    let s: u64 = kani::any();
    let n: u32 = kani::any();
    kani::assume(s < 8_000_000_000 && n < 1_000_000_000);
    let ct = Duration::new(s, n);
    let a: i64 = kani::any();
    let b: i64 = kani::any();
    kani::assume(a > -8_000_000_000 && a < 8_000_000_000 && b > -8_000_000_000 && b < 8_000_000_000);
    let has_from: bool = kani::any();
    let has_to: bool = kani::any();
    let vf = OffsetDateTime::from_unix_timestamp(a).ok();
    let ex = OffsetDateTime::from_unix_timestamp(b).ok();
    kani::assume(vf.is_some() && ex.is_some());
    let vfo = if has_from { vf } else { None };
    let exo = if has_to { ex } else { None };
    let r = Account::check_within_valid_time(ct, vfo.as_ref(), exo.as_ref());
    let ct_ns = s as i128 * 1_000_000_000 + n as i128;
    let lo_ok = !has_from || (a as i128 * 1_000_000_000 <= ct_ns);
    let hi_ok = !has_to || (ct_ns <= b as i128 * 1_000_000_000);
    assert!(r == (lo_ok && hi_ok));
}
