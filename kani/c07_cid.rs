// Kani harnesses on the REAL kanidmd_lib::repl::cid (child module: sees private items).
use super::*;

fn any_duration() -> Duration {
    let s: u64 = kani::any();
    let n: u32 = kani::any();
    kani::assume(n < 1_000_000_000);
    Duration::new(s, n)
}

// C07 property clauses as a Kani function contract on the real function (attributes woven by the sidecar):
//   requires *max_ts < Duration::MAX
//   ensures  r.ts > *max_ts && r.s_uuid == s_uuid          (property)
#[kani::proof_for_contract(Cid::new_lamport)]
fn contract_new_lamport() {
    let s: u128 = kani::any();
    let ts = any_duration();
    let max = any_duration();
    let _ = Cid::new_lamport(Uuid::from_u128(s), ts, &max);
}

// auxiliary precision: r.ts >= ts, and the clock value is used unchanged when it is already ahead
#[kani::proof]
fn new_lamport_aux() {
    let s: u128 = kani::any();
    let ts = any_duration();
    let max = any_duration();
    kani::assume(max < Duration::MAX);
    let c = Cid::new_lamport(Uuid::from_u128(s), ts, &max);
    assert!(c.ts >= ts);
    if ts > max { assert!(c.ts == ts); }
    kani::cover!(ts > max);
    kani::cover!(ts <= max);
}

// derived order of Cid: timestamp first, then server uuid ("ordered by timestamp and then server identity")
#[kani::proof]
fn cid_order_ts_then_uuid() {
    let a = Cid { ts: any_duration(), s_uuid: Uuid::from_u128(kani::any()) };
    let b = Cid { ts: any_duration(), s_uuid: Uuid::from_u128(kani::any()) };
    if a.ts < b.ts { assert!(a < b); }
    if a.ts == b.ts { assert!((a < b) == (a.s_uuid < b.s_uuid)); assert!((a == b) == (a.s_uuid == b.s_uuid)); }
    if a.ts > b.ts { assert!(a > b); }
}

// ---- the stand-in contracts the Verus units assume about std::time::Duration / uuid::Uuid ----
#[kani::proof]
fn shim_duration_order_is_lexicographic() {
    let (s1, n1, s2, n2): (u64, u32, u64, u32) = kani::any();
    kani::assume(n1 < 1_000_000_000 && n2 < 1_000_000_000);
    let a = Duration::new(s1, n1);
    let b = Duration::new(s2, n2);
    assert!(a.as_secs() == s1 && a.subsec_nanos() == n1);
    assert!((a < b) == (s1 < s2 || (s1 == s2 && n1 < n2)));
    assert!((a == b) == (s1 == s2 && n1 == n2));
    assert!((a <= b) == ((a < b) || a == b));
    assert!((a > b) == (b < a));
}
#[kani::proof]
fn shim_duration_add_from_nanos() {
    let (s1, n1, s2, n2): (u64, u32, u64, u32) = kani::any();
    kani::assume(n1 < 1_000_000_000 && n2 < 1_000_000_000);
    let carry = if n1 as u64 + n2 as u64 >= 1_000_000_000 { 1u128 } else { 0 };
    kani::assume(s1 as u128 + s2 as u128 + carry <= u64::MAX as u128);
    let r = Duration::new(s1, n1) + Duration::new(s2, n2);
    assert!(r.as_secs() as u128 == s1 as u128 + s2 as u128 + carry);
    assert!(r.subsec_nanos() as u64 == if carry == 1 { n1 as u64 + n2 as u64 - 1_000_000_000 } else { n1 as u64 + n2 as u64 });
    // from_nanos: a symbolic 64-bit division by 1e9 does not finish in CBMC (17 min, killed); the code under
    // contract only calls from_nanos(1), so the stand-in is compared at fixed points (sampled, not proved)
    for k in [0u64, 1, 999_999_999, 1_000_000_000, 1_000_000_001, u64::MAX] {
        let f = Duration::from_nanos(k);
        assert!(f.as_secs() == k / 1_000_000_000 && f.subsec_nanos() as u64 == k % 1_000_000_000);
    }
    assert!(Duration::MAX.as_secs() == u64::MAX && Duration::MAX.subsec_nanos() == 999_999_999);
    assert!(Duration::ZERO.as_secs() == 0 && Duration::ZERO.subsec_nanos() == 0);
    let q: u64 = kani::any();
    assert!(Duration::from_secs(q).as_secs() == q && Duration::from_secs(q).subsec_nanos() == 0);
}
#[kani::proof]
fn shim_uuid_order_is_u128_order() {
    let (a, b): (u128, u128) = kani::any();
    let ua = Uuid::from_u128(a);
    let ub = Uuid::from_u128(b);
    assert!((ua < ub) == (a < b));
    assert!((ua == ub) == (a == b));
    assert!(ua.as_u128() == a);
}
