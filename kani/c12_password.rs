// Kani harness on the REAL kanidm_lib_crypto: every Password variant survives to_dbpasswordv1 -> try_from unchanged.
// Loop-free, symbolic scalars, one-byte payloads (payload bytes are moved/cloned, never inspected by either function).
use super::*;

fn mk(which: u8, a: u32, b: u32, c: u32, d: u32, x: u8, y: u8) -> Password {
    let s = vec![x];
    let k = vec![y];
    let material = match which {
        0 => Kdf::TPM_ARGON2ID { m_cost: a, t_cost: b, p_cost: c, version: d, salt: s, key: k },
        1 => Kdf::ARGON2ID { m_cost: a, t_cost: b, p_cost: c, version: d, salt: s, key: k },
        2 => Kdf::PBKDF2(a, s, k),
        3 => Kdf::PBKDF2_SHA1(a, s, k),
        4 => Kdf::PBKDF2_SHA512(a, s, k),
        5 => Kdf::SHA1(k),
        6 => Kdf::SSHA1(s, k),
        7 => Kdf::SHA256(k),
        8 => Kdf::SSHA256(s, k),
        9 => Kdf::SHA512(k),
        10 => Kdf::SSHA512(s, k),
        11 => Kdf::NT_MD4(k),
        12 => Kdf::CRYPT_MD5 { s, h: k },
        13 => Kdf::CRYPT_SHA256 { h: String::new() },
        _ => Kdf::CRYPT_SHA512 { h: String::new() },
    };
    Password { material }
}

#[kani::proof]
#[kani::unwind(4)]
fn password_db_roundtrip_all_variants() {
    let which: u8 = kani::any();
    kani::assume(which <= 14);
    let (a, b, c, d): (u32, u32, u32, u32) = kani::any();
    let (x, y): (u8, u8) = kani::any();
    let p = mk(which, a, b, c, d, x, y);
    let q = Password::try_from(p.to_dbpasswordv1());
    match q {
        Ok(q) => assert!(q == p),
        Err(_) => assert!(false),
    }
}
