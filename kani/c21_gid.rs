// Kani harnesses on the real kanidmd_lib::utils (C21)
use super::*;

// uuid_to_gid_u32 is the big-endian value of bytes 12..16 — a pure function of the UUID (no clock, no RNG, no state)
#[kani::proof]
#[kani::unwind(6)]
fn uuid_to_gid_is_low_32_bits() {
    let v: u128 = kani::any();
    let u = Uuid::from_u128(v);
    let g = uuid_to_gid_u32(u);
    assert!(g == (v & 0xffff_ffff) as u32);
    // determinism: same uuid, same result
    assert!(uuid_to_gid_u32(Uuid::from_u128(v)) == g);
}
