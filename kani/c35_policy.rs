// Kani harnesses on the real kanidmd_lib::idm::accountpolicy (C35)
use super::*;
use crate::value::CredentialType;

fn ct_of(k: u8) -> CredentialType {
    match k % 7 {
        0 => CredentialType::Any, 1 => CredentialType::External, 2 => CredentialType::Mfa, 3 => CredentialType::Passkey,
        4 => CredentialType::AttestedPasskey, 5 => CredentialType::AttestedResidentkey, _ => CredentialType::Invalid,
    }
}
fn rank(c: CredentialType) -> u32 {
    match c { CredentialType::Any => 0, CredentialType::External => 5, CredentialType::Mfa => 10, CredentialType::Passkey => 20,
              CredentialType::AttestedPasskey => 30, CredentialType::AttestedResidentkey => 40, CredentialType::Invalid => 65535 }
}
// the Verus unit's stand-in order for CredentialType (by `rank`) is the derived order of the real type: full domain, loop-free
#[kani::proof]
fn credential_type_order_is_rank_order() {
    let a = ct_of(kani::any());
    let b = ct_of(kani::any());
    assert!((a < b) == (rank(a) < rank(b)));
    assert!((a > b) == (rank(a) > rank(b)));
    assert!((a == b) == (rank(a) == rank(b)));
    assert!(a as u16 as u32 == rank(a));
}

type T = (u32, u32, u32, u8, Option<u64>, Option<u64>, Option<bool>);
fn pol_from(v: &T) -> AccountPolicy {
    AccountPolicy { privilege_expiry: v.0, authsession_expiry: v.1, pw_min_length: v.2, credential_policy: ct_of(v.3 % 6),
        webauthn_att_ca_list: None, limit_search_max_filter_test: v.4, limit_search_max_results: v.5, allow_primary_cred_fallback: v.6 }
}
fn same(a: &ResolvedAccountPolicy, b: &ResolvedAccountPolicy) -> bool {
    a.privilege_expiry == b.privilege_expiry && a.authsession_expiry == b.authsession_expiry
        && a.pw_min_length == b.pw_min_length && a.pw_max_length == b.pw_max_length
        && a.credential_policy == b.credential_policy
        && a.limit_search_max_filter_test == b.limit_search_max_filter_test
        && a.limit_search_max_results == b.limit_search_max_results
        && a.allow_primary_cred_fallback == b.allow_primary_cred_fallback
}
// BOUNDED (N = 5 policies, the bound in the property's quantifier; values fully symbolic): the real fold_from with the real
// Iterator::for_each is invariant under the generators of S5 and at least as strict as every input
#[kani::proof]
#[kani::unwind(6)]
fn fold_order_independent_arr5() {
    let v: [T; 5] = kani::any();
    let r0 = ResolvedAccountPolicy::fold_from([pol_from(&v[0]), pol_from(&v[1]), pol_from(&v[2]), pol_from(&v[3]), pol_from(&v[4])].into_iter());
    let r1 = ResolvedAccountPolicy::fold_from([pol_from(&v[1]), pol_from(&v[0]), pol_from(&v[2]), pol_from(&v[3]), pol_from(&v[4])].into_iter());
    let r2 = ResolvedAccountPolicy::fold_from([pol_from(&v[1]), pol_from(&v[2]), pol_from(&v[3]), pol_from(&v[4]), pol_from(&v[0])].into_iter());
    assert!(same(&r0, &r1) && same(&r0, &r2));
    let mut i = 0;
    while i < 5 {
        assert!(r0.privilege_expiry <= v[i].0 && r0.authsession_expiry <= v[i].1 && r0.pw_min_length >= v[i].2);
        assert!(r0.credential_policy >= ct_of(v[i].3 % 6));
        i += 1;
    }
    assert!(r0.credential_policy >= CredentialType::Mfa || r0.pw_min_length >= PW_SFA_MIN_LENGTH_NIST);
}
