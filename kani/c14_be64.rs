// The axiom the Verus unit of C14 assumes about std: u64::from_be_bytes and u64::to_be_bytes are mutually inverse
// (be64(enc64(n)) == n, |enc64(n)| == 8). Pure std functions, so any crate can host the harness.
#[kani::proof]
fn be_bytes_roundtrip() {
    let n: u64 = kani::any();
    let b = n.to_be_bytes();
    assert!(b.len() == 8);
    assert!(u64::from_be_bytes(b) == n);
    let c: [u8; 8] = kani::any();
    assert!(u64::from_be_bytes(c).to_be_bytes() == c);
    assert!(u64::MIN.to_be_bytes() == [0u8; 8]);
}
