// Kani harness on the REAL sparkle_unix_common::unix_passwd (C43 offline fallback):
// a shadow password field that does not begin with `$` — locked (`!hash`, `*hash`), disabled or empty — never parses
// into a variant that can verify a credential. BOUNDED: fields of up to 6 ASCII bytes (enough for a lock marker
// followed by the shortest accepted prefix `$6$` and one hash byte).
use super::*;
use std::str::FromStr;

// format! dominates CBMC cost and its result is irrelevant here (only the variant is inspected): stubbed
fn stub_format(_a: core::fmt::Arguments<'_>) -> String { String::new() }

#[kani::proof]
#[kani::stub(alloc::fmt::format, stub_format)]
#[kani::unwind(8)]
fn locked_shadow_field_never_verifies() {
    let b: [u8; 6] = kani::any();
    let len: usize = kani::any();
    kani::assume(len <= 6);
    let mut i = 0;
    while i < 6 { kani::assume(b[i] >= 0x20 && b[i] < 0x7f); i += 1; }
    let s = match core::str::from_utf8(&b[..len]) { Ok(s) => s, Err(_) => return };
    let p = CryptPw::from_str(s);
    if len == 0 || b[0] != b'$' {
        match p { Ok(p) => { assert!(!p.is_valid()); } Err(_) => {} }
    }
    kani::cover!(len == 5 && b[0] == b'!' && b[1] == b'$' && b[2] == b'6' && b[3] == b'$');
}
