"""Kani route — placeholder, replaced below."""
from kv import Undecided
def run_units(prop, sidecars, tier, keep=False):
    raise Undecided("kani route not built yet")
def run_replay_test(rt):
    return 2, "not built"
