"""Kani route (DESIGN §2.2): weave contract attributes + harness child modules into a scratch copy of
/repo's working tree, run `cargo kani` on the real crates, classify per harness.

Nothing is written to /repo.  The scratch copy lives at a fixed path outside /repo and /verif and is
removed at the end of every run; only the dependency build cache (/verif/.cache/kani-target) persists.
"""
import fcntl
import json
import os
import re
import shutil
import subprocess
import sys
import time
import tomllib

from kv import Index, Undecided, VERIF, REPO, sha

SCRATCH = os.environ.get("VERIF_SCRATCH", "/var/tmp/kanidm-verif-scratch")
LOCK = SCRATCH + ".lock"
TARGET = os.path.join(VERIF, ".cache", "kani-target")
TEST_TARGET = os.path.join(VERIF, ".cache", "test-target")


def sh(cmd, cwd=None, env=None, timeout=None):
    e = dict(os.environ)
    e.update(env or {})
    p = subprocess.run(cmd, cwd=cwd, env=e, capture_output=True, text=True, timeout=timeout)
    return p.returncode, p.stdout + "\n" + p.stderr


def sync_scratch():
    os.makedirs(SCRATCH, exist_ok=True)
    rc, out = sh(["rsync", "-a", "--delete", "--exclude", "/target", "--exclude", "/.git", REPO + "/", SCRATCH + "/"])
    if rc != 0:
        raise Undecided("rsync of /repo failed: " + out[-300:])


def load(path):
    with open(path, "rb") as fh:
        sc = tomllib.load(fh)
    sc["_path"] = path
    return sc


def weave(sc, ix_cache):
    """Add contract attributes and the harness child module to the scratch copy. Returns bookkeeping records."""
    recs = []
    edits = {}  # file -> list of (offset, text)
    for c in sc.get("contract", []):
        src_dir = os.path.join(SCRATCH, c.get("crate_src", sc.get("crate_src", "server/lib/src")))
        if src_dir not in ix_cache:
            ix_cache[src_dir] = Index([src_dir])
        ix = ix_cache[src_dir]
        it = ix.find(c["path"], kind="fn", trait=c.get("trait"), file_hint=c.get("file_hint"))
        attrs = "".join(f"#[cfg_attr(kani, {a})]\n" for a in c["attrs"])
        # insert after the fn's own attributes/doc comments, i.e. right before visibility / `fn`
        at = it["vis"][0][0] if it["vis"] else it["sig_span"][0]
        edits.setdefault(it["file"], []).append((at, attrs))
        s, e = it["span"]
        recs.append({"unit": sc.get("unit"), "path": c["path"], "trait": c.get("trait"), "kind": "fn", "file": os.path.relpath(it["file"], SCRATCH),
                     "sha256": sha(ix.source(it["file"])[s:e]), "rules_fired": {"kani-contract-attrs": len(c["attrs"])}, "contract": c["attrs"]})
    for f, eds in edits.items():
        with open(f, "rb") as fh:
            b = fh.read()
        for at, text in sorted(eds, reverse=True):
            b = b[:at] + text.encode() + b[at:]
        with open(f, "wb") as fh:
            fh.write(b)
    attach = os.path.join(SCRATCH, sc["attach"])
    if not os.path.exists(attach):
        raise Undecided(f"anchor lost: file {sc['attach']} does not exist")
    hpath = os.path.join(VERIF, sc["harness_file"])
    modname = "verif_kani_" + re.sub(r"\W", "_", sc.get("unit", "u"))
    with open(attach, "a") as fh:
        fh.write(f"\n#[cfg(kani)]\n#[path = \"{hpath}\"]\nmod {modname};\n")
    for extra in sc.get("crate_attrs", []):
        # crate-level feature gates (loop contracts): prepend to the crate root
        root = os.path.join(SCRATCH, extra["root"])
        with open(root) as fh:
            t = fh.read()
        with open(root, "w") as fh:
            fh.write(extra["text"] + "\n" + t)
    return recs


HARNESS_RE = re.compile(r"^(?:Thread (\d+): )?Checking harness ([\w:]+)\.\.\.")
THREAD_RE = re.compile(r"^Thread (\d+): ?(.*)$")


def parse_kani(out):
    """Regular and `-j N --output-format terse` output: attribute each result block to its harness."""
    bodies = {}
    cur_by_thread = {}
    cur = None
    for line in out.splitlines():
        m = HARNESS_RE.match(line)
        if m:
            t = m.group(1) or "-"
            name = m.group(2).split("::")[-1]
            cur_by_thread[t] = name
            cur = name
            bodies.setdefault(name, [])
            continue
        m = THREAD_RE.match(line)
        if m:
            cur = cur_by_thread.get(m.group(1))
            line = m.group(2)
        if cur is not None:
            bodies[cur].append(line)
    res = {}
    for name, lines in bodies.items():
        body = "\n".join(lines)
        m = re.search(r"VERIFICATION:- (SUCCESSFUL|FAILED)", body)
        n = re.search(r"\*\* (\d+) of (\d+) failed", body)
        t = re.search(r"Verification Time: ([\d.]+)s", body)
        failed = re.findall(r"Failed Checks: (.*)", body)
        covers = re.findall(r"\*\* (\d+) of (\d+) cover properties satisfied", body)
        result = m.group(1) if m else "UNKNOWN"
        if result == "FAILED" and n is None:
            result = "UNKNOWN"  # CBMC crashed / was killed / timed out: no verdict
        res[name] = {
            "result": result,
            "failed": int(n.group(1)) if n else None,
            "checks": int(n.group(2)) if n else None,
            "time_s": float(t.group(1)) if t else None,
            "failed_checks": failed[:10],
            "covers": covers[0] if covers else None,
            "tail": body[-1500:],
        }
    return res


def cargo_kani(package, flags, harnesses, extra_env=None, timeout=3000, playback=False, harness_timeout=600, jobs=8):
    cmd = ["cargo", "kani", "-p", package] + flags
    if not playback:
        cmd += ["-Z", "unstable-options", "--harness-timeout", str(harness_timeout) + "s", "-j", str(jobs), "--output-format", "terse"]
    for h in harnesses:
        cmd += ["--harness", h]
    cmd += ["--target-dir", TARGET]
    if playback:
        cmd += ["-Z", "concrete-playback", "--concrete-playback=print"]
    env = {"RUSTFLAGS": "--cap-lints=warn", "CARGO_NET_OFFLINE": "true"}
    env.update(extra_env or {})
    t0 = time.time()
    try:
        rc, out = sh(["timeout", "-k", "10", str(timeout)] + cmd, cwd=SCRATCH, env=env)
    except Exception as ex:  # pragma: no cover
        return 99, str(ex), " ".join(cmd), time.time() - t0
    return rc, out, " ".join(cmd), time.time() - t0


def run_units(prop, sidecars, tier, keep=False):
    os.makedirs(os.path.dirname(TARGET), exist_ok=True)
    results = []
    with open(LOCK, "w") as lk:
        fcntl.flock(lk, fcntl.LOCK_EX)
        try:
            sync_scratch()
            ix_cache = {}
            units = []
            for p in sidecars:
                sc = load(p)
                try:
                    recs = weave(sc, ix_cache)
                    units.append((sc, recs, None))
                except Undecided as ex:
                    units.append((sc, [], str(ex)))
            # group by (package, flags) so that one cargo-kani invocation serves several units
            for sc, recs, err in units:
                t0 = time.time()
                r = {"unit": sc.get("unit"), "backend": "kani", "sidecar": os.path.relpath(sc["_path"], VERIF), "failures": [], "repro": [],
                     "records": recs, "clauses": {}, "functions": [], "assumptions": list(sc.get("assumptions", [])), "not_covered": list(sc.get("not_covered", [])),
                     "bounded": bool(sc.get("bounded")), "bound": sc.get("bound"), "verified": 0, "errors": 0, "checks_total": 0, "checks_ok": 0, "solver_s": 0.0,
                     "harness_results": []}
                if err:
                    r.update(status="undecided", undecided=err, cmd="", wall_s=0)
                    results.append(r)
                    continue
                hs = [h for h in sc.get("harness", []) if not (h.get("tier") == "thorough" and tier != "thorough")]
                names = [h["name"] for h in hs]
                rc, out, cmd, wall = cargo_kani(sc["package"], sc.get("flags", []), names, timeout=sc.get("timeout", 2400), harness_timeout=sc.get("harness_timeout", 600), jobs=sc.get("jobs", 8))
                r["cmd"] = "RUSTFLAGS=--cap-lints=warn CARGO_NET_OFFLINE=true " + cmd + "   (cwd: scratch copy of /repo with woven harness modules)"
                parsed = parse_kani(out)
                r["harnesses"] = names
                und = None
                if rc == 124 or rc == 137:
                    und = f"cargo kani timed out after {sc.get('timeout', 2400)} s"
                if re.search(r"error(\[E\d+\])?: ", out) and not parsed:
                    m = re.search(r"(error(\[E\d+\])?: [^\n]*(\n[^\n]*){0,6})", out)
                    und = "kani build failed: " + (m.group(1)[:600] if m else out[-400:])
                for h in hs:
                    pr = parsed.get(h["name"])
                    if pr is None:
                        und = und or f"harness {h['name']} produced no result: " + out[-500:]
                        continue
                    expect_fail = h.get("expect") == "failure"
                    hr = {"name": h["name"], "kind": h.get("kind", "full"), "result": pr["result"], "checks": pr["checks"], "failed": pr["failed"], "time_s": pr["time_s"],
                          "twin_of": h.get("twin_of"), "finding": h.get("finding")}
                    r["harness_results"].append(hr)
                    r["solver_s"] += pr["time_s"] or 0.0
                    if pr["result"] == "UNKNOWN":
                        und = und or f"harness {h['name']}: no verdict"
                        continue
                    if expect_fail:
                        r["repro"].append({"finding": h.get("finding"), "what": h.get("what", ""), "status": "fail" if pr["result"] == "FAILED" else "pass",
                                           "reproduces": pr["result"] == "FAILED", "expected": [h["name"]], "failed": [h["name"]] if pr["result"] == "FAILED" else [],
                                           "extra": [], "failures": []})
                        continue
                    r["checks_total"] += pr["checks"] or 0
                    r["checks_ok"] += (pr["checks"] or 0) - (pr["failed"] or 0)
                    if pr["result"] == "SUCCESSFUL":
                        r["verified"] += 1
                        if h.get("cover") and pr["covers"] and pr["covers"][0] != pr["covers"][1]:
                            und = und or f"vacuity: harness {h['name']} cover properties {pr['covers'][0]}/{pr['covers'][1]} satisfied"
                    else:
                        r["errors"] += 1
                        # unwinding assertion / unsupported construct failures are limits of the bound, not violations
                        fc = " | ".join(pr["failed_checks"])
                        only_limits = pr["failed_checks"] and all(re.search(r"unwinding assertion|is not currently supported|unsupported", x) for x in pr["failed_checks"])
                        if only_limits:
                            und = und or f"harness {h['name']}: bound/unsupported-construct failure ({fc[:200]})"
                            continue
                        f = {"obligation": f"kani.{h['name']}", "tag": h.get("tag", "property"), "kind": "kani_failure", "message": f"Kani FAILED: {fc[:400]}",
                             "fn": h.get("fn"), "clause": h.get("claim"), "site_line": None, "site_text": "", "rendered": pr["tail"]}
                        # counterexample + replay on the real code
                        try:
                            cex = concrete_playback(sc, h)
                            if cex:
                                rt0 = cex.get("replay_test")
                                if rt0 is None or rt0.get("fails_on_real_code"):
                                    f["counterexample"] = cex.get("values")
                                else:
                                    f["counterexample"] = None
                                    f["rendered"] += "\n(Kani's values " + json.dumps(cex.get("values")) + " did not reproduce as a failing #[test] on the real code: reported without a failing input)"
                                f["replay_test"] = cex.get("replay_test")
                                f["replay_output"] = cex.get("replay_output")
                                f["rendered"] += "\n--- concrete playback ---\n" + cex.get("raw", "")[:3000]
                        except Exception as ex:  # never let replay plumbing turn into an alarm or hide one
                            f["rendered"] += f"\n(concrete playback failed: {ex})"
                        r["failures"].append(f)
                if r["failures"]:
                    r["status"] = "fail"
                elif und:
                    r["status"] = "undecided"
                    r["undecided"] = und
                else:
                    r["status"] = "pass"
                r["wall_s"] = round(time.time() - t0, 2)
                results.append(r)
        finally:
            if not keep:
                shutil.rmtree(SCRATCH, ignore_errors=True)
            fcntl.flock(lk, fcntl.LOCK_UN)
    return results


def decode_vals(raw, types):
    """Kani prints `concrete_vals: Vec<Vec<u8>> = vec![ // 99ul \n vec![99,0,..], ...]`; decode little-endian by declared type."""
    vecs = re.findall(r"vec!\[([\d,\s]*)\]", raw)
    vals = []
    for v in vecs:
        bs = [int(x) for x in v.replace(" ", "").split(",") if x != ""]
        vals.append(bs)
    # the first `vec![` match may be the outer one (empty match) — drop empties that precede data
    vals = [v for v in vals if v]
    out = []
    pos = 0
    for t in types:
        if pos >= len(vals):
            break
        m = re.fullmatch(r"bytes(\d+)", t)
        if m:
            # an array [u8; N] is generated as N one-byte values
            n = int(m.group(1))
            if len(vals[pos]) == n:
                bs = vals[pos]
                pos += 1
            else:
                bs = [v[0] for v in vals[pos:pos + n]]
                pos += n
            out.append("[" + ", ".join(str(x) for x in bs) + "]")
            continue
        b = vals[pos]
        pos += 1
        if t == "bool":
            out.append("true" if b[0] else "false")
        else:
            out.append(str(int.from_bytes(bytes(b), "little")) + t)
    return out


def concrete_playback(sc, h):
    if not h.get("replay_types"):
        return None
    rc, out, cmd, wall = cargo_kani(sc["package"], sc.get("flags", []), [h["name"]], timeout=1200, playback=True)
    m = re.search(r"(?s)Concrete playback unit test for `[^`]+`:(.*?)(?:INFO|VERIFICATION|Summary|$)", out)
    raw = m.group(1) if m else ""
    if not raw:
        return {"raw": out[-1500:], "values": None}
    vals = decode_vals(raw, h["replay_types"])
    res = {"raw": raw, "values": dict(zip(h.get("replay_names", [f"v{i}" for i in range(len(vals))]), vals))}
    if h.get("replay_test") and len(vals) >= len(h["replay_types"]):
        body = h["replay_test"]
        for i, v in enumerate(vals):
            body = body.replace("{" + str(i) + "}", v)
        rt = {"crate": sc["package"], "file": sc["attach"], "test_source": body, "name": h.get("replay_name", "verif_replay"),
              "command": f"cargo test --offline -p {sc['package']} --lib {h.get('replay_name', 'verif_replay')}"}
        res["replay_test"] = rt
        rc2, out2 = run_replay_test(rt, have_lock=True)
        res["replay_output"] = out2[-2500:]
        ran = "test result:" in out2
        rt["fails_on_real_code"] = bool(ran and rc2 != 0 and ("test result: FAILED" in out2 or "panicked" in out2))
        rt["replay_ran"] = ran
        if not ran:
            # the replay did not build/run: no counterexample claim is made from it
            res["values_unreplayed"] = res.get("values")
    return res


def run_replay_test(rt, have_lock=False):
    """Append the test to a *fresh* copy of /repo (no kani weave) and run it with plain cargo test."""
    scratch = SCRATCH + "-replay"
    try:
        os.makedirs(scratch, exist_ok=True)
        rc, out = sh(["rsync", "-a", "--delete", "--exclude", "/target", "--exclude", "/.git", REPO + "/", scratch + "/"])
        if rc != 0:
            return 2, "rsync failed"
        with open(os.path.join(scratch, rt["file"]), "a") as fh:
            fh.write("\n#[cfg(test)]\nmod verif_replay_mod {\n    #![allow(unused_imports, clippy::all)]\n    use super::*;\n" + rt["test_source"] + "\n}\n")
        rc, out = sh(["timeout", "3000", "cargo", "+1.96.0", "test", "--offline", "-p", rt["crate"], "--lib", rt.get("name", "verif_replay"), "--target-dir", TEST_TARGET],
                     cwd=scratch, env={"CARGO_NET_OFFLINE": "true"})
        return rc, out
    finally:
        shutil.rmtree(scratch, ignore_errors=True)


def warm():
    """setup: build the dependency graph of the crates the kani units attach to (once, ~6 min)."""
    os.makedirs(os.path.dirname(TARGET), exist_ok=True)
    with open(LOCK, "w") as lk:
        fcntl.flock(lk, fcntl.LOCK_EX)
        try:
            sync_scratch()
            hp = os.path.join(VERIF, "kani", "warm.rs")
            pk = set()
            import glob
            for p in glob.glob(os.path.join(VERIF, "contracts", "*", "*.toml")):
                sc = load(p)
                if sc.get("backend", "").startswith("kani") and not sc.get("disabled"):
                    pk.add((sc["package"], sc["attach"]))
            seen = set()
            for package, attach in sorted(pk):
                if package in seen:
                    continue
                seen.add(package)
                with open(os.path.join(SCRATCH, attach), "a") as fh:
                    fh.write(f"\n#[cfg(kani)]\n#[path = \"{hp}\"]\nmod verif_kani_warm;\n")
                rc, out, cmd, wall = cargo_kani(package, [], ["verif_warm"], timeout=3400)
                print(f"kani warm {package}: rc={rc} wall={wall:.0f}s", "OK" if "SUCCESSFUL" in out else out[-800:])
        finally:
            shutil.rmtree(SCRATCH, ignore_errors=True)
            fcntl.flock(lk, fcntl.LOCK_UN)


if __name__ == "__main__":
    if len(sys.argv) > 1 and sys.argv[1] == "--warm":
        warm()
