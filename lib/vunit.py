"""Assemble a Verus verification unit from a template + sidecar, run Verus, classify the result."""
import json
import os
import re
import subprocess
import time
import tomllib

from kv import Index, Weaver, Undecided, VERIF, REPO, sha, emit_closure_fn, split_top_commas

WORK = os.path.join(VERIF, ".work")

VERIF_FAIL_PATTERNS = [
    (re.compile(r"^postcondition not satisfied"), "postcondition"),
    (re.compile(r"^precondition not satisfied"), "precondition"),
    (re.compile(r"^invariant not satisfied at end of loop body"), "invariant_end"),
    (re.compile(r"^invariant not satisfied before loop"), "invariant_entry"),
    (re.compile(r"^loop invariant not satisfied"), "invariant"),
    (re.compile(r"^assertion failed"), "assertion"),
    (re.compile(r"^bitvector (assertion|ensures|requires) not satisfied"), "bitvector_assertion"),
    (re.compile(r"^assert_by_compute|^failed to simplify down to true"), "compute_assertion"),
    (re.compile(r"^possible arithmetic underflow/overflow"), "overflow"),
    (re.compile(r"^possible division by zero"), "div_by_zero"),
    (re.compile(r"^possible bit shift underflow/overflow"), "shift_overflow"),
    (re.compile(r"^decreases not satisfied"), "decreases"),
    (re.compile(r"^could not prove termination"), "decreases"),
    (re.compile(r"^unreachable\b.*|^reached unreachable"), "unreachable"),
    (re.compile(r"^constructed value may fail to meet its declared type invariant"), "type_invariant"),
    (re.compile(r"^recommendation not met"), "recommends"),
    (re.compile(r"^failed to unwrap|^value may be (None|Err)"), "unwrap"),
    (re.compile(r"^index out of bounds|^possible (index|slice) out of bounds"), "bounds"),
    (re.compile(r"^cannot show .* (holds|satisfied)"), "other_vc"),
    (re.compile(r"^unable to prove post-condition of closure"), "closure_postcondition"),
    (re.compile(r"^unable to prove (pre|post)-?condition"), "other_vc"),
]
RLIMIT_PAT = re.compile(r"[Rr]esource limit|rlimit|timed? ?out|exceeded", re.I)


def load_sidecar(path):
    with open(path, "rb") as fh:
        sc = tomllib.load(fh)
    sc["_path"] = path
    sc["_dir"] = os.path.dirname(path)
    return sc


_index_cache = {}


def get_index(dirs):
    key = tuple(dirs)
    if key not in _index_cache:
        _index_cache[key] = Index(list(dirs))
    return _index_cache[key]


def apply_variant(sc, var):
    """A variant overrides parts of the sidecar (closure annotations, patches, hints of named fns) so that a contract can
    follow a harmless re-typing of the code (e.g. a closure that now returns Option<&T> instead of bool)."""
    import copy
    sc = copy.deepcopy(sc)
    fns = {f.get("id", f["path"]): f for f in sc.get("fn", [])}
    for ov in var.get("fn", []):
        f = fns.get(ov["id"])
        if f is None:
            raise Undecided(f"variant {var.get('name')} names unknown fn id {ov['id']}")
        for d in ov.get("drop", []):
            f.pop(d, None)
        for k, v in ov.items():
            if k in ("id", "drop"):
                continue
            if k == "closure":
                key = lambda c: ("o", c["ordinal"]) if "ordinal" in c else ("b", c.get("body_contains"))
                cl = {key(c): c for c in f.get("closure", [])}
                for c in v:
                    cl[key(c)] = c
                f["closure"] = list(cl.values())
            else:
                f[k] = v
    # closure-converted steps: a variant may re-point a step at another closure (e.g. two closures merged into one) or re-type it
    cfs = {c.get("id", c.get("name")): c for c in sc.get("closure_fn", [])}
    for ov in var.get("closure_fn", []):
        c = cfs.get(ov["id"])
        if c is None:
            sc.setdefault("closure_fn", []).append(dict(ov))
            continue
        for d in ov.get("drop", []):
            c.pop(d, None)
        for k, v in ov.items():
            if k not in ("id", "drop"):
                c[k] = v
    return sc


class Unit:
    def __init__(self, sidecar_path, variant=None):
        self.sc = load_sidecar(sidecar_path)
        self.variant = None
        if variant is not None:
            var = self.sc.get("variant", [])[variant]
            self.variant = var.get("name", str(variant))
            self.sc = apply_variant(self.sc, var)
        self.name = self.sc.get("unit") or os.path.splitext(os.path.basename(sidecar_path))[0]
        self.prop = self.sc["property"]
        self.text = None
        self.weaver = None
        self.regions = []  # (start_line, end_line, fn_id, origin)
        self.clause_lines = {}  # cid -> (start,end)
        self.includes = []

    def build(self):
        sc = self.sc
        ix = get_index(sc.get("crate_src", ["server/lib/src"]))
        w = Weaver(ix, self.name)
        w.prop = self.prop
        self.weaver = w
        fn_specs = {f.get("id", f["path"]): f for f in sc.get("fn", [])}
        item_specs = {f.get("id", f["path"]): f for f in sc.get("item", [])}
        closure_specs = {f["id"]: f for f in sc.get("closure_fn", [])}
        tpl_path = os.path.join(sc["_dir"], sc.get("template", self.name + ".rs"))
        with open(tpl_path) as fh:
            tpl = fh.read()
        used = set()
        out_lines = []

        def emit_text(t, fn_id=None, origin=None):
            start = len(out_lines) + 1
            out_lines.extend(t.split("\n"))
            if fn_id:
                self.regions.append((start, len(out_lines), fn_id, origin))

        def process(text, depth=0):
            for line in text.split("\n"):
                m = re.match(r"\s*//@(\w+)\s+(.*?)\s*$", line)
                if not m:
                    out_lines.append(line)
                    continue
                cmd, arg = m.group(1), m.group(2)
                if cmd == "include":
                    p = os.path.join(VERIF, arg)
                    with open(p) as fh:
                        inc = fh.read()
                    self.includes.append(arg)
                    # a shim may bring its own extraction entries (shims/X.toml next to shims/X.rs): real types the stand-ins refer to
                    side = os.path.splitext(p)[0] + ".toml"
                    if os.path.exists(side):
                        with open(side, "rb") as fh:
                            ssc = tomllib.load(fh)
                        for f in ssc.get("item", []):
                            item_specs.setdefault(f.get("id", f["path"]), f)
                        for f in ssc.get("fn", []):
                            fn_specs.setdefault(f.get("id", f["path"]), f)
                    out_lines.append(f"// ---- begin include {arg}")
                    process(inc, depth + 1)
                    out_lines.append(f"// ---- end include {arg}")
                elif cmd == "extract":
                    if arg in fn_specs:
                        t, it = w.emit_fn(fn_specs[arg])
                        out_lines.append(f"// ---- extracted from {os.path.relpath(it['file'], REPO)} bytes {it['span'][0]}..{it['span'][1]}")
                        emit_text(t, arg, os.path.relpath(it["file"], REPO))
                    elif arg in item_specs:
                        t = w.emit_item(item_specs[arg])
                        emit_text(t, arg, "item")
                    elif arg in closure_specs:
                        t, it = emit_closure_fn(w, closure_specs[arg])
                        out_lines.append(f"// ---- closure body extracted from {os.path.relpath(it['file'], REPO)} (R5)")
                        emit_text(t, arg, os.path.relpath(it["file"], REPO))
                    else:
                        raise Undecided(f"template names unknown extraction id {arg!r}")
                    used.add(arg)
                elif cmd == "static_list":
                    # R3b: //@static_list NAME  -> comma separated element list from `vec![..]`/`[..]`/`btreeset![..]` initializer
                    out_lines.append(self.static_list(ix, arg))
                else:
                    out_lines.append(line)

        self.realign(ix, sc)
        process(tpl)
        missing = (set(fn_specs) | set(item_specs) | set(closure_specs)) - used
        if missing:
            raise Undecided(f"sidecar entries never placed in template: {sorted(missing)}")
        self.text = "\n".join(out_lines)
        # @@const:NAME@@ -> the literal initializer text of the real constant (so lemmas speak about the code's own constants)
        def const_sub(m):
            it = ix.find(m.group(1), kind="const", file_hint=sc.get("const_file_hint"))
            s0, e0 = it["expr"]
            lit = ix.text(it["file"], s0, e0).strip()
            if not re.fullmatch(r"[0-9A-Za-z_x]+|u(8|16|32|64|size)::MAX", lit):
                raise Undecided(f"@@const:{m.group(1)}@@ initializer is not a literal: {lit!r}")
            w.records.append({"path": m.group(1), "kind": "const-literal", "file": os.path.relpath(it["file"], REPO), "span": it["span"],
                              "sha256": sha(lit), "rules_fired": {"const-literal": 1}, "diff_lines": 0, "diff": [], "literal": lit})
            return lit
        self.text = re.sub(r"@@const:(\w+)@@", const_sub, self.text)

        # @@constexpr:NAME:REGEX[:uuidhex]@@ -> group(1) of REGEX matched against the constant's initializer text
        def constexpr_sub(m):
            name, rx, xf = m.group(1), m.group(2), m.group(3)
            it = ix.find(name, kind="const", file_hint=sc.get("const_file_hint"))
            s0, e0 = it["expr"]
            init = "".join(ix.text(it["file"], s0, e0).split())
            mm = re.fullmatch(rx, init)
            if not mm:
                raise Undecided(f"@@constexpr:{name}@@ initializer {init!r} does not have the expected shape {rx!r}")
            val = mm.group(1)
            if xf == "uuidhex":
                val = "0x" + val.replace("-", "")
            w.records.append({"path": name, "kind": "const-expr", "file": os.path.relpath(it["file"], REPO), "span": it["span"],
                              "sha256": sha(init), "rules_fired": {"const-expr": 1}, "diff_lines": 0, "diff": [], "literal": val})
            return val
        self.text = re.sub(r"@@constexpr:(\w+):((?:[^@:]|:(?!uuidhex@@))+?)(?::(uuidhex))?@@", constexpr_sub, self.text)
        # clause line map
        for n, line in enumerate(self.text.split("\n"), 1):
            for m in re.finditer(r"/\*@(c\d+)\*/", line):
                cid = m.group(1)
                extra = w.clauses[cid]["text"].count("\n")
                self.clause_lines[cid] = (n, n + extra)
        return self

    def realign(self, ix, sc):
        """Ordinal re-alignment: closure / loop annotations addressed by ordinal are re-pointed when closures or loops were
        inserted or removed elsewhere in the function. The pinned record holds, per function, the normalised text of every closure
        body and loop header on the recorded tree; the current lists are aligned with them (difflib, longest matching blocks;
        replaced blocks of equal length are matched in order) and the sidecar's ordinals translated. A closure that was itself
        edited keeps its position between its unchanged neighbours. Placeholder and fresh-parameter names keep the recorded ordinal
        (KVX_CLOSURE_k, kvx_pk_j) so patches and clauses written against them stay valid."""
        import difflib
        self.fingerprints = {}
        pinned_path = os.path.join(VERIF, "contracts", self.prop, "pinned", self.name + ".json")
        old_all = {}
        if os.path.exists(pinned_path) and not os.environ.get("VERIF_NO_REALIGN"):
            try:
                with open(pinned_path) as fh:
                    old_all = json.load(fh).get("anchors", {}) or {}
            except Exception:
                old_all = {}
        norm = lambda t: "".join(t.split())
        def align(old, new):
            mp = {}
            for tag, i1, i2, j1, j2 in difflib.SequenceMatcher(a=old, b=new, autojunk=False).get_opcodes():
                if tag == "equal":
                    for d in range(i2 - i1):
                        mp[i1 + d] = j1 + d
                elif tag == "replace":
                    for d in range(min(i2 - i1, j2 - j1)):
                        mp[i1 + d] = j1 + d
            return mp
        groups = {}
        for kind in ("fn", "closure_fn"):
            for spec in sc.get(kind, []):
                try:
                    it = ix.find(spec["path"], kind="fn", trait=spec.get("trait"), file_hint=spec.get("file_hint"), nth=spec.get("nth"), impl_self=spec.get("impl_self"))
                except Exception:
                    continue
                key = spec["path"] + "|" + str(spec.get("trait")) + "|" + str(spec.get("impl_self")) + "|" + str(spec.get("nth"))
                src = ix.source(it["file"])
                cl = [norm(src[c["body"][0]:c["body"][1]].decode("utf-8")) for c in it.get("closures", [])]
                lp = [norm(src[l["kw"]:l["body_open"]].decode("utf-8")) for l in it.get("loops", [])]
                self.fingerprints[key] = {"closures": cl, "loops": lp}
                groups.setdefault(key, []).append((kind, spec, it))
        for key, members in groups.items():
            old = old_all.get(key)
            if not old:
                continue
            cur = self.fingerprints[key]
            cmap = align(old.get("closures", []), cur["closures"]) if old.get("closures", []) != cur["closures"] else None
            lmap = align(old.get("loops", []), cur["loops"]) if old.get("loops", []) != cur["loops"] else None
            for kind, spec, it in members:
                if cmap is not None:
                    if kind == "closure_fn" and "ordinal" in spec and spec["ordinal"] in cmap:
                        spec["ordinal"] = cmap[spec["ordinal"]]
                    for c in spec.get("closure", []):
                        if "ordinal" in c and c["ordinal"] in cmap and cmap[c["ordinal"]] != c["ordinal"]:
                            k0, k1 = c["ordinal"], cmap[c["ordinal"]]
                            c["ordinal"] = k1
                            if c.get("cut") and "cut_name" not in c:
                                c["cut_name"] = str(k0)
                            if "pnames" not in c and k1 < len(it.get("closures", [])):
                                c["pnames"] = [f"kvx_p{k0}_{j}" for j in range(len(it["closures"][k1]["inputs"]))]
                if lmap is not None:
                    for l in spec.get("loop", []):
                        if "ordinal" in l and l["ordinal"] in lmap:
                            l["ordinal"] = lmap[l["ordinal"]]
                    # loops the recorded tree did not have (W7: they get the function's own result-free postconditions as invariants)
                    if kind == "fn":
                        spec["_new_loops"] = [j for j in range(len(cur["loops"])) if j not in set(lmap.values())]

    def static_list(self, ix, arg):
        parts = arg.split()
        name = parts[0]
        fmt = parts[1] if len(parts) > 1 else "{}"
        each = None
        for x in parts[2:]:
            if x.startswith("each="):
                each = x[5:]
        it = ix.find(name, kind="static")
        s, e = it["expr"]
        init = ix.text(it["file"], s, e)
        m = re.search(r"(?s)(?:vec!|btreeset!|smolset!)?\s*\[(.*)\]", init)
        if not m:
            raise Undecided(f"R3b: cannot read initializer of static {name}")
        from kv import split_top_commas
        elems = [x for x in split_top_commas(re.sub(r"//[^\n]*", "", m.group(1))) if x]
        raw_elems = elems
        if each:
            elems = [each.replace("%", e) for e in elems]
        self.weaver.records.append({"path": name, "kind": "static", "file": os.path.relpath(it["file"], REPO), "span": it["span"],
                                    "sha256": sha(init), "rules_fired": {"R3b": 1}, "diff_lines": 0, "diff": [], "elements": raw_elems})
        return fmt.replace("{}", ", ".join(elems)).replace("{n}", str(len(elems)))

    def fn_of_line(self, n):
        for a, b, fid, origin in self.regions:
            if a <= n <= b:
                return fid
        # hand-written template text (lemmas, stand-ins): name the enclosing fn
        lines = self.text.split("\n")
        for k in range(min(n, len(lines)) - 1, -1, -1):
            m = re.search(r"\bfn\s+(\w+)", lines[k])
            if m:
                return "template::" + m.group(1)
        return None

    def clause_of_line(self, n):
        for cid, (a, b) in self.clause_lines.items():
            if a <= n <= b:
                return cid
        return None


WIDE_SRC = ["server/lib/src", "proto/src", "libs/crypto/src", "libs/scim_proto/src", "unix_integration/resolver_common/src", "unix_integration/common/src"]


def supply_consts(unit, res):
    """D7: when the woven text refers to a constant of the repository that the template does not define (rustc E0425 on an
    ALL_CAPS name), and /repo defines exactly one such non-test constant of a primitive integer / bool type whose initializer is a
    literal, that definition (`pub const NAME: T = LIT;`) is appended to the unit and recorded. Returns the new text or None."""
    names = []
    for d in res.get("diags", []):
        m = re.match(r"cannot find value `([A-Z][A-Z0-9_]+)` in this scope", d.get("message", ""))
        if m and m.group(1) not in names:
            names.append(m.group(1))
    if not names:
        return None
    dirs = list(dict.fromkeys(list(unit.sc.get("crate_src", ["server/lib/src"])) + WIDE_SRC))
    ix = get_index(dirs)
    add = []
    for n in names:
        cands = [it for it in ix.items if it.get("kind") == "const" and (it.get("path") == n or str(it.get("path")).endswith("::" + n)) and not it.get("in_test") and "expr" in it]
        if len(cands) != 1:
            return None
        it = cands[0]
        ty = "".join(it.get("ty", "").split())
        lit = ix.text(it["file"], it["expr"][0], it["expr"][1]).strip()
        is_num = ty in ("u8", "u16", "u32", "u64", "u128", "usize", "i8", "i16", "i32", "i64", "isize", "bool") and re.fullmatch(r"[0-9][0-9A-Za-z_]*|true|false", lit)
        is_str = ty in ("&str", "&'staticstr") and re.fullmatch(r'"[^"\\\n]*"', lit)
        if not (is_num or is_str):
            return None
        if is_str:
            ty = "&'static str"
        add.append(f"pub const {n}: {ty} = {lit};  // D7: {os.path.relpath(it['file'], REPO)}")
        unit.weaver.records.append({"path": n, "kind": "const-literal", "file": os.path.relpath(it["file"], REPO), "span": it["span"],
                                    "sha256": sha(lit), "rules_fired": {"D7": 1}, "diff_lines": 0, "diff": [], "literal": lit})
    k = unit.text.rfind("\n}\nfn main")
    if k < 0:
        return None
    unit.text = unit.text[:k] + "\n" + "\n".join(add) + unit.text[k:]
    return unit.text


def _strip_line_comments(t):
    """remove `// ..` comments outside string / char literals (so a multi-line body can be put on one line)"""
    out, i, n = [], 0, len(t)
    while i < n:
        c = t[i]
        if c == '"':
            j = i + 1
            while j < n and t[j] != '"':
                j += 2 if t[j] == "\\" else 1
            out.append(t[i:j + 1]); i = j + 1
        elif c == "/" and t[i:i + 2] == "//":
            j = t.find("\n", i)
            i = n if j < 0 else j
        elif c == "/" and t[i:i + 2] == "/*":
            j = t.find("*/", i + 2)
            j = n if j < 0 else j + 2
            out.append(t[i:j]); i = j
        else:
            out.append(c); i += 1
    return "".join(out)


def _balanced(text, k):
    """text[k] == '(' -> index of the matching ')' (strings skipped), or -1"""
    depth, i, n = 0, k, len(text)
    while i < n:
        c = text[i]
        if c == '"':
            i += 1
            while i < n and text[i] != '"':
                i += 2 if text[i] == "\\" else 1
        elif c in "([{":
            depth += 1
        elif c in ")]}":
            depth -= 1
            if depth == 0:
                return i
        i += 1
    return -1


def supply_helpers(unit, res):
    """D9: when changed code calls a function of the repository that the unit does not contain (rustc: cannot find function /
    no method named / no function or associated item named), and the files the unit's functions come from define exactly one such
    non-test function that is small enough to read as an expression — no generics, no `return`, no `?`, no `.await`, receiver
    absent or `&self`, named parameters — every call of it in the unit is replaced by the function's own (woven) body with the
    parameters bound to the arguments: `h(a, b)` -> `{ let (p, q): (P, Q) = (a, b); BODY }`, `x.h(a)` -> `{ let kvx_hs = &(x); .. }`
    with `self` renamed. This is the definition of a call of a non-recursive function; nothing is assumed about the helper.
    Returns the new text or None (then the run stays undecided)."""
    names = []
    for d in res.get("diags", []):
        msg = d.get("message", "")
        for pat in (r"cannot find function `(\w+)` in this scope", r"no method named `(\w+)` found", r"no function or associated item named `(\w+)` found", r"no associated function or constant named `(\w+)` found", r"no associated item named `(\w+)` found"):
            m = re.match(pat, msg)
            if m and m.group(1) not in names:
                names.append(m.group(1))
        # a converted closure / extracted method that calls `Self::h(..)` outside its impl: the helpers are the `Self::` calls
        if re.search(r"cannot find `Self`|undeclared type `Self`|`Self` is only available", msg):
            for m in re.finditer(r"\bSelf\s*::\s*(\w+)\s*\(", unit.text):
                if m.group(1) not in names:
                    names.append(m.group(1))
    if not names:
        return None
    files = list(dict.fromkeys(r["file"] for r in unit.weaver.records if r.get("file")))
    dirs = list(dict.fromkeys(list(unit.sc.get("crate_src", ["server/lib/src"])) + WIDE_SRC))
    ix = get_index(dirs)
    text = unit.text
    done = 0
    for n in names:
        cands = [it for it in ix.items if it.get("kind") == "fn" and it.get("name") == n and not it.get("in_test") and "body_open" in it
                 and os.path.relpath(it["file"], REPO) in files]
        cands = list({(c["file"], tuple(c["span"])): c for c in cands}.values())      # overlapping source directories index a file twice
        if len(cands) != 1:
            return None
        it = cands[0]
        src = ix.source(it["file"])
        sig = src[it["sig_span"][0]:it["sig_span"][1]].decode("utf-8")
        if it.get("is_async") or it.get("is_unsafe") or it.get("where_span") or re.search(r"fn\s+\w+\s*<", sig) or it.get("nested_fns"):
            return None
        params, has_self = [], False
        for inp in it.get("inputs", []):
            ptxt = src[inp["span"][0]:inp["span"][1]].decode("utf-8").strip()
            if inp.get("name") == "self":
                if "".join(ptxt.split()) != "&self":
                    return None
                has_self = True
                continue
            if not inp.get("name") or "'" in ptxt or "impl " in ptxt or ptxt.startswith("mut "):
                return None
            nm, ty = ptxt.split(":", 1)
            params.append((nm.strip(), ty.strip()))
        w = unit.weaver
        nrec = len(w.records)
        woven = None
        for hspec in ({"impl_self": it.get("impl_self"), "trait": it.get("impl_trait")}, {"trait": it.get("impl_trait")}, {}):
            try:
                woven, _ = w.emit_fn(dict({"path": it["path"], "id": "kvx_helper_" + n, "file_hint": os.path.relpath(it["file"], REPO)}, **hspec))
                break
            except Exception:
                del w.records[nrec:]
        if woven is None:
            return None
        k = woven.find("{", woven.find(")", woven.find("fn " + n)))
        body = woven[k:woven.rfind("}") + 1]
        body = " ".join(_strip_line_comments(body).split())
        # the sidecar's own dialect rewrites that are declared for every occurrence (count = "any", literal) also apply to the pulled-in text
        for sp in list(unit.sc.get("fn", [])) + list(unit.sc.get("closure_fn", [])):
            for pt in sp.get("patch", []):
                if pt.get("count") == "any" and not pt.get("regex") and not pt.get("flex") and pt["old"] in body:
                    body = body.replace(pt["old"], pt["new"])
        if re.search(r"\breturn\b|\?|\.await\b|\bSelf\b", body):
            del w.records[nrec:]
            return None
        if has_self:
            body = re.sub(r"\bself\b", "kvx_hs", body)
        bind = ""
        # parameters of unsized-reference type (&str, &[T]) rely on a coercion of the argument that a tuple pattern does not perform:
        # those bindings are left to inference
        infer = any(re.match(r"&\s*(mut\s+)?(str\b|\[)", b) for _, b in params)
        if len(params) == 1:
            bind = "let {}: {} = {{}};".format(*params[0])
        elif params and infer:
            bind = "let ({}) = ({{}});".format(", ".join(a for a, _ in params))
        elif params:
            bind = "let ({}): ({}) = ({{}});".format(", ".join(a for a, _ in params), ", ".join(b for _, b in params))
        # call sites
        if has_self:
            rx = re.compile(r"(?<![\w\.])((?:[A-Za-z_]\w*)(?:\s*\.\s*[A-Za-z_]\w*)*)\s*\.\s*" + re.escape(n) + r"\s*\(")
        else:
            rx = re.compile(r"(?<![\w\.:])(?:(?:[A-Za-z_]\w*)\s*::\s*)*" + re.escape(n) + r"\s*\(")
        pos, out, cnt = 0, [], 0
        while True:
            m = rx.search(text, pos)
            if not m:
                break
            if re.search(r"\bfn\s+$", text[max(0, m.start() - 8):m.start()]):
                pos = m.end(); continue
            po = m.end() - 1
            pc = _balanced(text, po)
            if pc < 0:
                return None
            args = text[po + 1:pc]
            if "\n" in args:
                args = " ".join(_strip_line_comments(args).split())
            nargs = len([a for a in split_top_commas(args) if a.strip()]) if args.strip() else 0
            if nargs != len(params):
                return None
            rep = "{ " + (f"let kvx_hs = &({m.group(1)}); " if has_self else "") + (bind.format(args) if params else "") + " " + body + " }"
            out.append(text[pos:m.start()]); out.append(rep)
            pos = pc + 1
            cnt += 1
        out.append(text[pos:])
        if cnt == 0:
            del w.records[nrec:]
            return None
        text = "".join(out)
        for r in w.records[nrec:]:
            r.setdefault("rules_fired", {})["D9"] = cnt
            r["kind"] = "fn-inlined"
        done += 1
    if not done:
        return None
    unit.text = text
    return text


def _stable(path, workname):
    """keep the emitted text under its stable name for inspection (evidence points at it); the run itself used a per-process name"""
    stable = os.path.join(WORK, workname + ".rs")
    try:
        os.replace(path, stable)
        return stable
    except OSError:
        return path


def run_verus(text, workname, rlimit=None, extra_args=None, timeout=900):
    os.makedirs(WORK, exist_ok=True)
    # one file per process: two checks of the same property running at once (e.g. a check and a mutation run) must not share it
    path = os.path.join(WORK, f"{workname}_p{os.getpid()}.rs")
    with open(path, "w") as fh:
        fh.write(text)
    cmd = ["verus", path, "--output-json", "--time-expanded", "--error-format=json", "--multiple-errors", "12"]
    if rlimit:
        cmd += ["--rlimit", str(rlimit)]
    cmd += list(extra_args or [])
    t0 = time.time()
    try:
        p = subprocess.run(cmd, capture_output=True, text=True, timeout=timeout, cwd=WORK)
        to = False
    except subprocess.TimeoutExpired as ex:
        shown = " ".join(cmd).replace(path, _stable(path, workname))
        return {"cmd": shown, "timeout": True, "wall_s": time.time() - t0, "diags": [], "json": None, "raw_err": str(ex)[:2000], "path": path}
    diags = []
    raw = []
    for l in p.stderr.splitlines():
        try:
            d = json.loads(l)
            if isinstance(d, dict) and "message" in d:
                diags.append(d)
            else:
                raw.append(l)
        except Exception:
            raw.append(l)
    js = None
    try:
        js = json.loads(p.stdout)
    except Exception:
        pass
    run_path = path
    path = _stable(path, workname)
    return {"cmd": " ".join(cmd).replace(run_path, path), "timeout": False, "wall_s": time.time() - t0, "diags": diags, "json": js, "raw_err": "\n".join(raw)[-4000:], "rc": p.returncode, "path": path}


def classify(unit, res):
    """-> dict(status, failures[], undecided_reason, verified, errors, functions[])"""
    out = {"unit": unit.name, "status": None, "failures": [], "undecided": None, "verified": 0, "errors": 0,
           "functions": [], "wall_s": round(res["wall_s"], 2), "cmd": res["cmd"], "smt_ms": 0}
    if res["timeout"]:
        out["status"] = "undecided"
        out["undecided"] = "verus timed out"
        return out
    js = res["json"]
    if js is None:
        out["status"] = "undecided"
        out["undecided"] = "verus produced no JSON result: " + res["raw_err"][-600:]
        return out
    vr = js.get("verification-results", {})
    out["verified"] = vr.get("verified", 0)
    out["errors"] = vr.get("errors", 0)
    try:
        smt = js["times-ms"]["smt"]
        out["smt_ms"] = smt.get("total", 0)
        for m in smt.get("smt-run-module-times", []):
            for f in m.get("function-breakdown", []):
                out["functions"].append({"function": f["function"], "mode": f.get("mode:"), "ms": f.get("time"), "rlimit": f.get("rlimit"), "success": f.get("success")})
    except Exception:
        pass
    errs = [d for d in res["diags"] if d.get("level") == "error"]
    other = []
    for d in errs:
        msg = d["message"]
        if msg.startswith("aborting due to"):
            continue
        kind = None
        for pat, k in VERIF_FAIL_PATTERNS:
            if pat.search(msg):
                kind = k
                break
        if kind is None:
            other.append(d)
            continue
        spans = d.get("spans", [])
        prim = [s for s in spans if s.get("is_primary")] or spans
        # which function does it belong to?  use the span that is *not* a clause label first
        fn_id = None
        clause = None
        for s in spans:
            c = unit.clause_of_line(s["line_start"])
            if c and clause is None:
                clause = c
        for s in (prim + spans):
            f = unit.fn_of_line(s["line_start"])
            if f:
                fn_id = f
                break
        site = None
        for s in spans:
            if unit.clause_of_line(s["line_start"]) is None:
                site = s
                break
        cl = unit.weaver.clauses.get(clause) if clause else None
        if kind == "precondition":
            # clause (if any) is the callee's requires; the failure belongs to the call site's function, and the site is the call
            # (primary span), not the callee's `requires` line (which lies in the template when the callee is a stand-in or lemma)
            if prim:
                site = prim[0]
            site_fn = unit.fn_of_line(prim[0]["line_start"]) if prim else None
            ob_fn = site_fn or (cl["fn"] if cl else None) or "template"
            callee = f"{cl['fn']}.requires.{cl['idx']}" if cl else "lib"
            ob = f"{ob_fn}.call_precondition[{callee}]"
            tag = "property"
        elif cl is not None:
            ob = f"{cl['fn']}.{cl['kind']}.{cl['idx']}"
            tag = cl["tag"]
            fn_id = cl["fn"]
        else:
            ln = prim[0]["line_start"] if prim else 0
            ob = f"{fn_id or 'template'}.{kind}"
            tag = "property"
        txt = ""
        if site and site.get("text"):
            txt = site["text"][0]["text"].strip()
        if cl is None and fn_id and str(fn_id).startswith("template::") and str(fn_id)[10:] in set(unit.sc.get("aux_lemmas", [])):
            tag = "auxiliary"   # a lemma of the shared template that belongs to another property's statement
        if "/*@aux-hint*/" in txt and cl is None:
            tag = "auxiliary"
            ob = f"{fn_id or 'template'}.aux_hint"
        out["failures"].append({
            "obligation": ob, "tag": tag, "kind": kind, "message": msg, "fn": fn_id,
            "clause": cl["text"] if cl else None,
            "site_line": site["line_start"] if site else None,
            "site_text": txt,
            "rendered": d.get("rendered", "")[:3000],
        })
    if other:
        out["status"] = "undecided"
        rl = [d for d in other if RLIMIT_PAT.search(d["message"])]
        first = (rl or other)[0]
        out["undecided"] = ("solver resource limit: " if rl else "unit does not compile / unsupported construct: ") + first["message"][:300]
        out["undecided_rendered"] = first.get("rendered", "")[:3000]
        return out
    if out["failures"]:
        out["status"] = "fail"
        return out
    if vr.get("success") and out["errors"] == 0:
        out["status"] = "pass"
        if out["verified"] == 0:
            out["status"] = "undecided"
            out["undecided"] = "zero obligations generated"
        return out
    out["status"] = "undecided"
    out["undecided"] = "verus reported failure without a recognised verification diagnostic: " + res["raw_err"][-500:]
    return out


ASSUME_SCAN = [
    ("assume(", re.compile(r"\bassume\s*\(")),
    ("admit(", re.compile(r"\badmit\s*\(")),
    ("external_body", re.compile(r"external_body")),
    ("assume_specification", re.compile(r"assume_specification")),
    ("external_fn_specification", re.compile(r"external_fn_specification")),
    ("exec_allows_no_decreases_clause", re.compile(r"exec_allows_no_decreases_clause")),
    ("axiom (broadcast/proof fn with admit)", re.compile(r"\baxiom_\w+")),
]


def scan_assumptions(text):
    """Mechanical scan of the emitted unit: every trusted construct, with the item it is attached to."""
    found = []
    lines = text.split("\n")
    for i, l in enumerate(lines):
        code = l.split("//")[0]
        for name, pat in ASSUME_SCAN[:6]:
            if pat.search(code):
                # find next fn signature line
                sig = ""
                for j in range(i, min(i + 6, len(lines))):
                    m = re.search(r"\bfn\s+(\w+)", lines[j])
                    if m:
                        sig = m.group(1)
                        break
                    m = re.search(r"assume_specification.*\[\s*([^\]]+)\]", lines[j])
                    if m:
                        sig = m.group(1).strip()
                        break
                found.append(f"{name}: {sig or l.strip()[:80]}")
    # dedupe, keep order
    seen = set()
    res = []
    for f in found:
        if f not in seen:
            seen.add(f)
            res.append(f)
    return res
