"""kv — extraction + weaving of real /repo function text into Verus units (DESIGN §2.1).

The syn-based indexer `kvx` reports byte spans; this module copies the source text
byte-for-byte and applies *only* the documented edits (rules D1-D3, W1-W5, R1-R4).
Every rule that fires is recorded, with a sha256 of the original span and a unified
diff of original vs emitted text, so that "the verified text is the code that runs"
can be checked by a reader.
"""
import difflib
import hashlib
import json
import os
import re
import subprocess
import sys

VERIF = os.path.dirname(os.path.dirname(os.path.abspath(__file__)))
REPO = os.environ.get("VERIF_REPO", "/repo")
KVX = os.path.join(VERIF, "kvx", "target", "release", "kvx")

TRACE_MACROS = {
    "trace", "debug", "info", "warn", "error", "event", "println", "eprintln",
    "admin_debug", "admin_error", "admin_warn", "admin_info",
    "security_info", "security_access", "security_critical", "security_error", "security_debug",
    "filter_trace", "filter_info", "filter_warn", "filter_error", "filter_debug",
    "request_error", "request_warn", "request_info", "request_debug", "request_trace",
    "perf_trace", "debug_span", "trace_span", "info_span",
}
ASSERT_MACROS = {"assert", "debug_assert", "assert_eq", "debug_assert_eq", "assert_ne", "debug_assert_ne"}
KEEP_DERIVES = {"Clone", "Copy", "PartialEq", "Eq", "PartialOrd", "Ord", "Debug", "Default"}


class Undecided(Exception):
    """Anything that prevents a verdict (anchor lost, unsupported construct, …) — exit 2, never an alarm."""


def sha(b):
    return hashlib.sha256(b if isinstance(b, bytes) else b.encode()).hexdigest()


class Index:
    def __init__(self, dirs):
        self.dirs = [d if os.path.isabs(d) else os.path.join(REPO, d) for d in dirs]
        for d in self.dirs:
            if not os.path.exists(d):
                raise Undecided(f"source dir {d} missing")
        if not os.path.exists(KVX):
            raise Undecided(f"kvx binary missing at {KVX}; run ./setup.sh")
        out = subprocess.run([KVX, "index"] + self.dirs, capture_output=True, text=True)
        if out.returncode != 0:
            raise Undecided("kvx failed: " + out.stderr[-400:])
        self.data = json.loads(out.stdout)
        self.src = {}
        self.items = []
        self.parse_errors = []
        for f in self.data["files"]:
            if f["error"]:
                self.parse_errors.append((f["file"], f["error"]))
                continue
            for it in f["items"]:
                it["file"] = f["file"]
                self.items.append(it)

    def source(self, file):
        if file not in self.src:
            with open(file, "rb") as fh:
                self.src[file] = fh.read()
        return self.src[file]

    def text(self, file, s, e):
        return self.source(file)[s:e].decode("utf-8")

    def find(self, path, kind="fn", trait=None, file_hint=None, nth=None, allow_test=False, name_in_mod=None, impl_self=None):
        cands = [i for i in self.items if i["path"] == path and i["kind"] == kind and (allow_test or not i.get("in_test"))]
        if trait is not None:
            t = "".join(trait.split())
            cands = [i for i in cands if (i.get("impl_trait") or "") == t]
        if name_in_mod is not None:
            cands = [i for i in cands if name_in_mod in i.get("mods", [])]
        if impl_self is not None:
            # the self type of the impl block, e.g. "Entry<EntryValid, STATE>" (compared without whitespace)
            t = "".join(impl_self.split())
            full = {(i["file"], i.get("impl_ord")): i.get("impl_self_full") for i in self.items if i.get("impl_self_full") is not None}
            cands = [i for i in cands if "".join((full.get((i["file"], i.get("impl_ord"))) or "").split()) == t]
        if len(cands) > 1 and file_hint:
            h = [i for i in cands if i["file"].endswith(file_hint)]
            if h:
                cands = h
        if nth is not None and len(cands) > nth:
            cands = [cands[nth]]
        if not cands:
            extra = ""
            if self.parse_errors:
                extra = f" (note: {len(self.parse_errors)} file(s) failed to parse: {self.parse_errors[0]})"
            raise Undecided(f"anchor lost: {kind} {path}" + (f" (trait {trait})" if trait else "") + " not found" + extra)
        if len(cands) > 1:
            raise Undecided(f"anchor ambiguous: {kind} {path} found in " + ", ".join(f'{c["file"]}' for c in cands))
        return cands[0]


class Edits:
    """Non-overlapping replacements over a byte span, applied right-to-left."""

    def __init__(self, base, text_bytes):
        self.base = base
        self.buf = text_bytes
        self.eds = []  # (s, e, replacement str, rule)

    def replace(self, s, e, new, rule):
        self.eds.append((s - self.base, e - self.base, new, rule))

    def insert(self, at, new, rule):
        self.replace(at, at, new, rule)

    def apply(self):
        eds = sorted(self.eds, key=lambda x: (x[0], x[1]))
        # nested edits: an edit wholly contained in a removed region is dropped
        out = []
        pos = 0
        res = bytearray()
        for s, e, new, rule in eds:
            if s < pos:
                if e <= pos:
                    continue  # swallowed by an enclosing replacement (e.g. macro inside dropped macro)
                raise Undecided(f"overlapping edits at {s + self.base} rule {rule}")
            res += self.buf[pos:s]
            res += new.encode()
            pos = e
            out.append(rule)
        res += self.buf[pos:]
        return res.decode("utf-8"), out


def clause_tag(c):
    """'#aux expr' -> ('auxiliary', expr); default 'property'."""
    c = c.strip()
    if c.startswith("#aux"):
        return "auxiliary", c[4:].strip()
    if c.startswith("#prop"):
        return "property", c[5:].strip()
    return "property", c


class Weaver:
    def __init__(self, index, unit_name):
        self.ix = index
        self.unit = unit_name
        self.prop = None   # set by the unit: the property this unit is judged for (hints may be property-level for some properties only)
        self.clauses = {}  # marker id -> dict(fn, kind, idx, tag, text)
        self.records = []  # per extraction bookkeeping
        self._cid = 0

    def mark(self, fn_id, kind, idx, tag, text):
        self._cid += 1
        cid = f"c{self._cid}"
        self.clauses[cid] = {"fn": fn_id, "kind": kind, "idx": idx, "tag": tag, "text": text}
        return f"/*@{cid}*/ {text}"

    # ---- plain items -------------------------------------------------------
    def emit_item(self, spec):
        kind = spec.get("kind", "struct")
        it = self.ix.find(spec["path"], kind=kind, file_hint=spec.get("file_hint"), nth=spec.get("nth"))
        s, e = it["span"]
        src = self.ix.source(it["file"])
        ed = Edits(s, src[s:e])
        rules = []
        keep = set(spec.get("derives", KEEP_DERIVES)) if spec.get("derives") is not None else KEEP_DERIVES
        for a in it["attrs"]:
            if a["path"] == "derive":
                m = re.match(r"derive\((.*)\)$", a["text"])
                names = [x for x in (m.group(1).split(",") if m else []) if x]
                kept = [n for n in names if n.split("::")[-1] in keep]
                if kept != names:
                    ed.replace(a["span"][0], a["span"][1], ("#[derive(" + ", ".join(kept) + ")]") if kept else "", "D2")
            elif a["path"] in set(spec.get("keep_attrs", [])):
                continue
            else:
                ed.replace(a["span"][0], a["span"][1], "", "D2")
        # attributes inside the item (field / variant attrs such as #[serde(..)], #[default])
        inner_src = src[s:e].decode("utf-8")
        for v in it["vis"]:
            ed.replace(v[0], v[1], "pub", "D3")
        for pos in it.get("private_fields", []):
            ed.insert(pos, "pub ", "D3")
        text, fired = ed.apply()
        # field/variant-level attributes and doc comments: strip textually (they are #[...] / /// lines)
        text2 = strip_inner_attrs(text, tuple(spec.get('keep_attrs', [])))
        if text2 != text:
            fired.append("D2")
            text = text2
        if it["kind"] in ("struct", "enum") and not it["vis"]:
            pass
        text = ensure_pub(text, it["kind"])
        for p in spec.get("patch", []):
            text = apply_patch(text, p, fired, spec["path"])
        self.records.append(record(it, src[s:e].decode("utf-8"), text, fired))
        return text

    def weave_closures(self, ed, src, fid, spec, closures, within, within_self=None):
        """R2 (pattern parameters), W3 (closure contracts) and R5 cuts for the closures of a function; `within` restricts the pass to
        the closures nested inside a byte span (used when a closure body is itself emitted as a function, R5)."""
        r2 = spec.get("r2_all", True)
        cl_specs = {c["ordinal"]: c for c in spec.get("closure", []) if "ordinal" in c}
        # closures may also be addressed by content (`body_contains`): the annotation applies to every closure whose source text
        # contains the string — robust against closures being added or removed elsewhere in the function
        pat_specs = [c for c in spec.get("closure", []) if "body_contains" in c]
        for ps in pat_specs:
            hit = 0
            for k, c in enumerate(closures):
                if within is not None and not (within[0] <= c["span"][0] and c["span"][1] <= within[1] and c["span"] != list(within_self)):
                    continue
                if ps["body_contains"] in src[c["body"][0]:c["body"][1]].decode("utf-8") and k not in cl_specs \
                        and not any(x in src[c["body"][0]:c["body"][1]].decode("utf-8") for x in ps.get("body_excludes", [])):
                    # innermost match only: skip a closure that merely encloses a matching one
                    inner = [c2 for c2 in closures if c2 is not c and c["body"][0] <= c2["span"][0] and c2["span"][1] <= c["body"][1]
                             and ps["body_contains"] in src[c2["body"][0]:c2["body"][1]].decode("utf-8")]
                    if inner:
                        continue
                    cl_specs[k] = dict(ps, ordinal=k)
                    hit += 1
            if hit < ps.get("min", 1):
                raise Undecided(f"anchor lost: no closure of {spec['path']} contains {ps['body_contains']!r}")
        for k, c in enumerate(closures):
            if within is not None and not (within[0] <= c["span"][0] and c["span"][1] <= within[1] and c["span"] != list(within_self)):
                continue
            cs = cl_specs.get(k)
            # `leaf = true`: the contract was written over a closure body without closures of its own. Verus treats an unannotated
            # closure as opaque, so a rewrite of the body into nested adaptor closures (`.and_then(|x| ..).map(|y| ..)`) could not
            # be proved even when it is correct: that is undecided, never a violation.
            if cs is not None and cs.get("leaf"):
                nested = [c2 for c2 in closures if c2 is not c and c["body"][0] <= c2["span"][0] and c2["span"][1] <= c["body"][1]]
                if nested:
                    raise Undecided(f"anchor lost: closure {k} of {spec['path']} now contains {len(nested)} closure(s) of its own; its contract was written over a closure-free body")
            # R2: pattern parameters
            pre_lets = []
            for j, p in enumerate(c["inputs"]):
                if p["simple"] is None and r2:
                    fresh = f"kvx_p{k}_{j}"
                    if cs is not None and j < len(cs.get("pnames", [])):
                        fresh = cs["pnames"][j]      # a name for the pattern parameter that does not depend on the closure's ordinal
                    ptxt = src[p["span"][0]:p["span"][1]].decode("utf-8")
                    if p["typed"]:
                        # `(a, b): T` -> `fresh: T` ; pattern part before the last top-level ':'
                        pat, ty = split_typed_pat(ptxt)
                        ed.replace(p["span"][0], p["span"][1], f"{fresh}: {ty}", "R2")
                        pre_lets.append(f"let {pat} = {fresh};")
                    else:
                        pty = (cs or {}).get("ptypes", [])
                        ed.replace(p["span"][0], p["span"][1], fresh + (": " + pty[j] if j < len(pty) and pty[j] else ""), "R2")
                        pre_lets.append(f"let {ptxt} = {fresh};")
            if cs is not None and cs.get("cut"):
                # R5: the closure text is cut out and replaced by a placeholder; a literal patch of the sidecar then redirects the
                # call that consumed it (e.g. `iter.for_each(KVX_CLOSURE_0)`) to a stand-in specified through the closure-converted
                # function proved separately
                ed.replace(c["span"][0], c["span"][1], f"KVX_CLOSURE_{cs.get('cut_name', k)}", "R5")   # cut_name: a placeholder that does not depend on the closure's ordinal
                continue
            need_block = bool(pre_lets) or (cs is not None)
            if cs is not None and cs.get("ptypes"):
                # W3: untyped simple parameters get the type the sidecar states (rustc checks it against the inferred one)
                for j, p in enumerate(c["inputs"]):
                    if j < len(cs["ptypes"]) and cs["ptypes"][j] and p["simple"] is not None and not p["typed"]:
                        ed.insert(p["span"][1], ": " + cs["ptypes"][j], "W3")
            if cs is not None:
                ann = []
                ins_at = c["or2"][1]
                if cs.get("ret"):
                    if c["has_ret"]:
                        # the closure already declares `-> T`: name the result in place, `-> (o: T)`, keeping the code's own type
                        rs, re_ = c["ret"]
                        name = cs["ret"].split(":")[0].strip()
                        ed.replace(rs, re_, f"({name}: " + src[rs:re_].decode("utf-8") + ")", "W3")
                        ins_at = re_
                    else:
                        ann.append(f" -> ({cs['ret']})")
                if cs.get("requires"):
                    ann.append("\n        requires")
                    for i, x in enumerate(cs["requires"]):
                        tag, t = clause_tag(x)
                        ann.append("\n            " + self.mark(fid, f"closure{k}.requires", i, tag, t) + ",")
                if cs.get("ensures"):
                    ann.append("\n        ensures")
                    for i, x in enumerate(cs["ensures"]):
                        tag, t = clause_tag(x)
                        ann.append("\n            " + self.mark(fid, f"closure{k}.ensures", i, tag, t) + ",")
                ed.insert(ins_at, "".join(ann) + "\n        ", "W3")
            if need_block:
                bs, be = c["body"]
                if c["body_is_block"] and not pre_lets:
                    pass
                elif c["body_is_block"]:
                    # insert lets right after the opening brace
                    ed.insert(bs + 1, " " + " ".join(pre_lets) + " ", "R2")
                else:
                    ed.insert(bs, "{ " + " ".join(pre_lets) + " ", "R2" if pre_lets else "W3")
                    ed.insert(be, " }", "R2" if pre_lets else "W3")
        for k in cl_specs:
            if k >= len(closures):
                raise Undecided(f"anchor lost: closure {k} of {spec['path']} (function has {len(closures)} closures)")

    # ---- functions ---------------------------------------------------------
    def emit_fn(self, spec):
        it = self.ix.find(spec["path"], kind="fn", trait=spec.get("trait"), file_hint=spec.get("file_hint"), nth=spec.get("nth"), impl_self=spec.get("impl_self"))
        fid = spec.get("id", spec["path"])
        if "body_open" not in it:
            raise Undecided(f"{spec['path']} has no body")
        if it.get("is_async") and not spec.get("sequential_async"):
            raise Undecided(f"{spec['path']} is async: outside the Verus dialect")
        s, e = it["span"]
        src = self.ix.source(it["file"])
        ed = Edits(s, src[s:e])
        if it.get("is_async"):
            # D4: the `async` keyword and every `.await` suffix are dropped: the body is verified as sequential code (each awaited
            # call is an ordinary call of a stand-in). What this drops: interleaving with other tasks at the await points.
            if "awaits" not in it or not it.get("async_kw"):
                raise Undecided(f"{spec['path']} is async and the index has no await spans")
            mx = spec.get("max_awaits")
            if mx is not None and len(it["awaits"]) > mx:
                raise Undecided(f"{spec['path']} now has {len(it['awaits'])} await points, contract was written for at most {mx} (D4)")
            ed.replace(it["async_kw"][0], it["async_kw"][1], "", "D4")
            for a in it["awaits"]:
                ed.replace(a["span"][0], a["span"][1], "", "D4")
        # D6: a by-value `mut self` receiver (rejected by Verus) becomes `self` plus `let mut kvx_self = self;` as the first statement,
        # with every `self` token of the body renamed — the definitional meaning of a `mut` binding of a by-value parameter
        for inp in it.get("inputs", []):
            if inp.get("name") == "self":
                rtxt = src[inp["span"][0]:inp["span"][1]].decode("utf-8")
                if re.fullmatch(r"mut\s+self", rtxt.strip()):
                    ed.replace(inp["span"][0], inp["span"][1], "self", "D6")
                    bo, bc = it["body_open"], it["body_close"]
                    ed.insert(bo + 1, " let mut kvx_self = self; ", "D6")
                    body = src[bo + 1:bc]
                    for m in re.finditer(rb"\bself\b", body):
                        ed.replace(bo + 1 + m.start(), bo + 1 + m.end(), "kvx_self", "D6")
            elif inp.get("name"):
                # `mut x: T` -> `x: T` plus `let mut x = x;` (shadowing): the same thing for an ordinary by-value parameter
                ptxt = src[inp["span"][0]:inp["span"][1]].decode("utf-8")
                mm = re.match(r"mut\s+", ptxt)
                if mm:
                    ed.replace(inp["span"][0], inp["span"][0] + len(mm.group(0)), "", "D6")
                    ed.insert(it["body_open"] + 1, f" let mut {inp['name']} = {inp['name']}; ", "D6")
        # D2: attributes and doc comments on the fn, and attributes inside the body
        for a in it["attrs"]:
            ed.replace(a["span"][0], a["span"][1], "", "D2")
        for a in it.get("body_attrs", []):
            if a["path"] in ("allow", "inline", "instrument", "doc", "cfg_attr", "expect"):
                ed.replace(a["span"][0], a["span"][1], "", "D2")
        # D3
        for v in it["vis"]:
            ed.replace(v[0], v[1], "pub", "D3")
        # D1c: `<x>_span!(..).in_scope(|| BODY)` -> `BODY` (tracing::Span::in_scope runs the closure inside the span and returns its
        # value; the span itself is logging). Done as two deletions around BODY so edits inside BODY still apply.
        for ss in it.get("span_scopes", []):
            ed.replace(ss["span"][0], ss["body"][0], "", "D1c")
            ed.replace(ss["body"][1], ss["span"][1], "", "D1c")
        # D5: a match arm `P1 | P2 if G => B` (or-pattern together with a guard: rejected by Verus) becomes
        # `kvx_orpat if matches!(kvx_orpat, P1 | P2) && (G) => B` — same arm order, same selection, same body. Only when the
        # pattern binds no names (otherwise B could use them); the scrutinee value is bound by move to a name nothing else uses.
        for k, oa in enumerate(it.get("or_guard_arms", [])):
            if [b for b in oa.get("binds", []) if not b[:1].isupper()]:     # `None`, unit variants and constants parse as identifier patterns
                raise Undecided(f"{spec['path']}: or-pattern with bindings and a guard (D5 applies to binding-free patterns only)")
            ptxt = src[oa["pat"][0]:oa["pat"][1]].decode("utf-8")
            ed.replace(oa["pat"][0], oa["pat"][1], f"kvx_orpat{k}", "D5")
            ed.insert(oa["guard"][0], f"matches!(kvx_orpat{k}, {ptxt}) && (", "D5")
            ed.insert(oa["guard"][1], ")", "D5")
        # D1b: a `for` loop over a shared-borrow iterator (`x.iter()` / `.keys()` / `.values()`) whose body consists solely of dropped
        # tracing macros is dropped as a whole: logging only
        for lp in it.get("loops", []):
            if lp.get("kind") != "for":
                continue
            ex = src[lp["expr"][0]:lp["expr"][1]].decode("utf-8")
            if not re.fullmatch(r"[\w\.]+\.(iter|keys|values)\(\)", "".join(ex.split())):
                continue
            bo, bc = lp["body_open"] + 1, lp["body_close"] - 1
            inner = src[bo:bc].decode("utf-8")
            rest = inner
            for m in sorted([m for m in it.get("macros", []) if bo <= m["span"][0] and m["span"][1] <= bc and m["name"] in TRACE_MACROS and not m["has_mut_borrow"]],
                            key=lambda m: -m["span"][0]):
                a, b = m["span"][0] - bo, m["span"][1] - bo
                rest = rest[:a] + rest[b:]
            rest = re.sub(r"//[^\n]*", "", rest)
            if rest.strip(" \t\n;") == "":
                ed.replace(lp["span"][0], lp["span"][1], "", "D1b")
        # D1 / R1: macros
        keep_macros = set(spec.get("keep_macros", []))
        for m in it.get("macros", []):
            nm = m["name"]
            if nm in keep_macros:
                continue
            if nm in TRACE_MACROS:
                if m["has_mut_borrow"]:
                    raise Undecided(f"D1 refused: {nm}! in {spec['path']} contains a &mut borrow")
                if m["stmt"]:
                    ed.replace(m["span"][0], m["span"][1], "", "D1")
                else:
                    ed.replace(m["span"][0], m["span"][1], "()", "D1")
            elif nm in ASSERT_MACROS:
                txt = src[m["span"][0]:m["span"][1]].decode("utf-8")
                ed.replace(m["span"][0], m["span"][1], rewrite_assert(txt, nm), "R1")
            elif nm == "matches" and rewrite_matches_or_guard(src[m["span"][0]:m["span"][1]].decode("utf-8")) is not None:
                ed.replace(m["span"][0], m["span"][1], rewrite_matches_or_guard(src[m["span"][0]:m["span"][1]].decode("utf-8")), "D5")
            elif nm in spec.get("macro_redirect", {}):
                # R3 (macro form): `name![args]` -> `stand_in(args)`: the arguments stay the code's own text
                txt = src[m["span"][0]:m["span"][1]].decode("utf-8")
                mm = re.match(r"(?s)((?:[A-Za-z_][\w:]*)\s*!\s*[\(\[\{])(.*)([\)\]\}])(\s*;?\s*)$", txt)
                if not mm:
                    raise Undecided(f"R3: cannot parse macro call {txt[:60]!r}")
                a0 = m["span"][0]
                ed.replace(a0, a0 + len(mm.group(1).encode()), spec["macro_redirect"][nm] + "(", "R3")
                close_at = a0 + len((mm.group(1) + mm.group(2)).encode())
                ed.replace(close_at, close_at + 1, ")", "R3")
        # W1: ret name + requires/ensures/decreases
        ret = spec.get("ret", "r")
        if it["ret"] is not None and not spec.get("keep_ret", False):
            rs, re_ = it["ret"]
            ed.insert(rs, f"({ret}: ", "W1")
            ed.insert(re_, ")", "W1")
        hdr = []
        reqs = spec.get("requires", [])
        enss = spec.get("ensures", [])
        if reqs:
            hdr.append("    requires")
            for i, c in enumerate(reqs):
                tag, t = clause_tag(c)
                hdr.append("        " + self.mark(fid, "requires", i, tag, t) + ",")
        if enss:
            hdr.append("    ensures")
            for i, c in enumerate(enss):
                tag, t = clause_tag(c)
                hdr.append("        " + self.mark(fid, "ensures", i, tag, t) + ",")
        if spec.get("decreases"):
            hdr.append("    decreases " + spec["decreases"] + ",")
        if spec.get("no_unwind"):
            hdr.append("    no_unwind")
        if hdr:
            ed.insert(it["body_open"], "\n" + "\n".join(hdr) + "\n", "W1")
        # W5 entry hint
        for h in spec.get("hint", []):
            if h.get("at") == "entry":
                ed.insert(it["body_open"] + 1, "\n" + h["text"] + "\n", "W5")
            elif h.get("at") == "tail":
                # W5 tail hint: the body's tail expression E becomes `{ let kvx_ret = E; <hint>; kvx_ret }` so that a proof block can
                # speak about the value being returned and the final state
                if "tail_expr" not in it:
                    raise Undecided(f"W5 tail hint: {spec['path']} has no tail expression")
                ts, te = it["tail_expr"]
                ed.insert(ts, "{ let kvx_ret = ", "W5")
                ed.insert(te, ";\n" + h["text"] + "\nkvx_ret }", "W5")
        # W2: loops
        loops = it.get("loops", [])
        for ls in spec.get("loop", []):
            k = ls["ordinal"]
            if k >= len(loops):
                raise Undecided(f"anchor lost: loop {k} of {spec['path']} (function has {len(loops)} loops)")
            lp = loops[k]
            if "kind" in ls and ls["kind"] != lp["kind"]:
                raise Undecided(f"anchor changed: loop {k} of {spec['path']} is now a `{lp['kind']}` loop, contract expects `{ls['kind']}`")
            if lp["kind"] == "for" and ls.get("ghost"):
                ed.insert(lp["expr"][0], f"{ls['ghost']}: ", "W2")
            inv = []
            if ls.get("invariant_except_break"):
                inv.append("        invariant_except_break")
                for i, c in enumerate(ls["invariant_except_break"]):
                    tag, t = clause_tag(c)
                    inv.append("            " + self.mark(fid, f"loop{k}.invariant_except_break", i, tag, t) + ",")
            if ls.get("invariant"):
                inv.append("        invariant")
                for i, c in enumerate(ls["invariant"]):
                    tag, t = clause_tag(c)
                    inv.append("            " + self.mark(fid, f"loop{k}.invariant", i, tag, t) + ",")
            if ls.get("ensures"):
                inv.append("        ensures")
                for i, c in enumerate(ls["ensures"]):
                    tag, t = clause_tag(c)
                    inv.append("            " + self.mark(fid, f"loop{k}.ensures", i, tag, t) + ",")
            if ls.get("decreases"):
                inv.append("        decreases " + ls["decreases"] + ",")
            if inv:
                ed.insert(lp["body_open"], "\n" + "\n".join(inv) + "\n        ", "W2")
            # W5 ghost hints at the start / end of the loop body
            if ls.get("body_start"):
                ed.insert(lp["body_open"] + 1, "\n            " + ls["body_start"] + "\n", "W5")
            if ls.get("body_end"):
                ed.insert(lp["body_close"] - 1, "\n            " + ls["body_end"] + "\n        ", "W5")
        # W7: a loop the recorded tree did not have has no invariant in the sidecar. The function's own postconditions that do not
        # mention the result, read over the current state (`final(x)` -> `x`), are woven as AUXILIARY invariants: a loop that
        # keeps them (a harmless one) then does not cost the postconditions; if one fails, the usual auxiliary re-run judges the
        # postconditions without it.
        retn = (spec.get("ret") or "").split(":")[0].strip()
        for k in spec.get("_new_loops", []):
            if k >= len(loops) or any(ls.get("ordinal") == k for ls in spec.get("loop", [])):
                continue
            autos = []
            for cl in spec.get("ensures", []):
                _tag, t = clause_tag(cl)
                if "final(" not in t or (retn and re.search(r"\b" + re.escape(retn) + r"\b", t)):
                    continue
                autos.append(re.sub(r"final\((\w+)\)", r"\1", t))
            if autos:
                lp = loops[k]
                inv = ["        invariant"] + ["            " + self.mark(fid, f"loop{k}.auto_invariant", i, "auxiliary", t) + "," for i, t in enumerate(autos)]
                ed.insert(lp["body_open"], "\n" + "\n".join(inv) + "\n        ", "W7")
        # D8: guard-continue normal form in `for` loops (Verus has no `continue` in for-loops): a top-level statement
        # `if C { continue; }` becomes `if !(C) { <the rest of the body> }`; only when every `continue` of the loop has that form
        for lp in it.get("loops", []):
            gs = lp.get("guard_continues") or []
            if lp.get("kind") == "for" and gs and len(gs) == lp.get("continues"):
                for g in gs:
                    (s0, s1), (c0, c1) = g["stmt"], g["cond"]
                    ed.replace(s0, c0, "if !(", "D8")
                    ed.replace(c1, s1, ") {", "D8")
                    ed.insert(lp["body_close"] - 1, "}", "D8")
        # D8b: any other statement-form `continue;` in a `for` body (nested in blocks / match arms): a per-iteration flag.
        # `continue;` becomes `kvx_skip = true;` and, in every enclosing block up to the loop body, the statements after the one
        # holding it are wrapped in `if !kvx_skip { .. }` — the same control flow without the keyword
        for lp in it.get("loops", []):
            gs = lp.get("guard_continues") or []
            fc = lp.get("flag_continues") or []
            if lp.get("kind") == "for" and fc and len(fc) == lp.get("continues") and len(gs) != lp.get("continues"):
                ed.insert(lp["body_open"] + 1, " let mut kvx_skip: bool = false; ", "D8b")
                seen = set()
                for c in fc:
                    ed.replace(c["kw"][0], c["kw"][1], "kvx_skip = true", "D8b")
                    for r0, r1 in c["rests"]:
                        if (r0, r1) in seen:
                            continue
                        seen.add((r0, r1))
                        ed.insert(r0, "if !kvx_skip { ", "D8b")
                        ed.insert(r1, " }", "D8b")
        # R2 + W3: closures
        self.weave_closures(ed, src, fid, spec, it.get("closures", []), None)
        text, fired = ed.apply()
        # W4
        pre_attr = ""
        if spec.get("no_decreases"):
            pre_attr += "#[verifier::exec_allows_no_decreases_clause]\n"
            fired.append("W4")
        for a in spec.get("add_attrs", []):
            pre_attr += a + "\n"
            fired.append("W4")
        # R3/R4 patches (literal) and W5 hints (literal anchors)
        for p in spec.get("patch", []):
            text = apply_patch(text, p, fired, spec["path"])
        for h in spec.get("hint", []):
            if h.get("at") in ("entry", "tail"):
                continue
            anchor = h.get("after") or h.get("before")
            occ = h.get("occurrence")
            if isinstance(anchor, list):
                # alternative anchors, tried in order: the first one present (uniquely, unless `occurrence` is given) is used
                cands = [a for a in anchor if text.count(a) == 1 or (text.count(a) > 1 and occ is not None)]
                if not cands:
                    raise Undecided(f"W5 hint: none of the alternative anchors {anchor!r} occurs in {spec['path']}")
                if h.get("after"):
                    h = dict(h, after=cands[0])
                else:
                    h = dict(h, before=cands[0])
                anchor = cands[0]
            if h.get("regex"):
                # the anchor is a regular expression (for statements whose operands the contract, not the hint, must pin down)
                ms = list(re.finditer(anchor, text))
                if h.get("optional") and len(ms) <= (occ or 0):
                    continue
                if not ms or (len(ms) > 1 and occ is None) or len(ms) <= (occ or 0):
                    raise Undecided(f"W5 hint anchor /{anchor}/ occurs {len(ms)} times in {spec['path']}")
                m = ms[occ or 0]
                pos = m.end() if h.get("after") else m.start()
            else:
                n = text.count(anchor)
                if n == 0 or (n > 1 and occ is None):
                    raise Undecided(f"W5 hint anchor {anchor!r} occurs {n} times in {spec['path']}")
                pos = -1
                for _ in range((occ or 0) + 1):
                    pos = text.find(anchor, pos + 1)
                    if pos < 0:
                        raise Undecided(f"W5 hint anchor {anchor!r} occurrence {occ} missing in {spec['path']}")
                if h.get("after"):
                    pos += len(anchor)
            htext = h["text"]
            if h.get("tag") == "auxiliary" or ("props" in h and self.prop not in h["props"]):
                htext = "\n".join(l + " /*@aux-hint*/" for l in htext.split("\n"))
            text = text[:pos] + "\n" + htext + "\n" + text[pos:]
            fired.append("W5")
        text = pre_attr + text
        self.records.append(record(it, src[s:e].decode("utf-8"), text, fired))
        return text, it


def emit_closure_fn(w, spec):
    """R5 (closure conversion): the body of closure #k of fn `path` is emitted as a named function whose parameters are the
    closure's captured variables (given in the sidecar, e.g. `accumulate: &mut ResolvedAccountPolicy`) followed by the closure's
    own parameters. The body text is copied byte-for-byte (D1 applies). This is the definitional meaning of calling the closure;
    `iter.for_each(f)` calls it once per element, in order (std documentation of Iterator::for_each)."""
    it = w.ix.find(spec["path"], kind="fn", trait=spec.get("trait"), file_hint=spec.get("file_hint"), nth=spec.get("nth"), impl_self=spec.get("impl_self"))
    cls = it.get("closures", [])
    src0 = w.ix.source(it["file"])
    if "body_contains" in spec and "ordinal" not in spec:
        # addressed by content: the innermost closure whose body contains the string (robust against closures added elsewhere)
        hits = [j for j, c0 in enumerate(cls) if spec["body_contains"] in src0[c0["body"][0]:c0["body"][1]].decode("utf-8")]
        hits = [j for j in hits if not any(j2 != j and cls[j]["body"][0] <= cls[j2]["span"][0] and cls[j2]["span"][1] <= cls[j]["body"][1] for j2 in hits)]
        if len(hits) != 1:
            raise Undecided(f"anchor lost: {len(hits)} closures of {spec['path']} contain {spec['body_contains']!r}")
        k = hits[0]
    else:
        k = spec["ordinal"]
    if k >= len(cls):
        raise Undecided(f"anchor lost: closure {k} of {spec['path']} (function has {len(cls)} closures)")
    c = cls[k]
    names = [p["simple"] for p in c["inputs"]]
    src = w.ix.source(it["file"])
    pre_lets = []
    if None in names:
        # pattern parameters (`|(a, b)|`): the sidecar names the function parameter that stands for the whole pattern
        # (`closure_params`), and `let PATTERN = that_name;` becomes the first statement of the body (R2)
        cps = spec.get("closure_params") or []
        if len(cps) != len(names):
            raise Undecided(f"R5: closure {k} of {spec['path']} has pattern parameters; the sidecar must name {len(names)} closure_params")
        for j, p_ in enumerate(c["inputs"]):
            if p_["simple"] is None:
                ptxt = src[p_["span"][0]:p_["span"][1]].decode("utf-8")
                if p_["typed"]:
                    ptxt, _ty = split_typed_pat(ptxt)
                pre_lets.append(f"let {ptxt} = {cps[j]};")
            elif p_["simple"] != cps[j]:
                raise Undecided(f"R5: closure {k} of {spec['path']} has parameters {names}, contract expects {cps}")
    elif names != spec.get("closure_params", names):
        raise Undecided(f"R5: closure {k} of {spec['path']} has parameters {names}, contract expects {spec.get('closure_params')}")
    bs, be = c["body"]
    ed = Edits(bs, src[bs:be])
    for m in it.get("macros", []):
        if bs <= m["span"][0] and m["span"][1] <= be:
            if m["name"] in TRACE_MACROS:
                if m["has_mut_borrow"]:
                    raise Undecided(f"D1 refused in closure {k} of {spec['path']}")
                ed.replace(m["span"][0], m["span"][1], "" if m["stmt"] else "()", "D1")
            elif m["name"] in ASSERT_MACROS:
                ed.replace(m["span"][0], m["span"][1], rewrite_assert(src[m["span"][0]:m["span"][1]].decode("utf-8"), m["name"]), "R1")
            elif m["name"] in spec.get("macro_redirect", {}):
                # R3 (macro form), as in emit_fn
                txt = src[m["span"][0]:m["span"][1]].decode("utf-8")
                mm = re.match(r"(?s)((?:[A-Za-z_][\w:]*)\s*!\s*[\(\[\{])(.*)([\)\]\}])(\s*;?\s*)$", txt)
                if not mm:
                    raise Undecided(f"R3: cannot parse macro call {txt[:60]!r}")
                a0 = m["span"][0]
                ed.replace(a0, a0 + len(mm.group(1).encode()), spec["macro_redirect"][m["name"]] + "(", "R3")
                close_at = a0 + len((mm.group(1) + mm.group(2)).encode())
                ed.replace(close_at, close_at + 1, ")", "R3")
    fid = spec.get("id", spec["path"] + f"#closure{k}")
    w.weave_closures(ed, src, fid, spec, cls, (bs, be), tuple(c["span"]))
    body, fired = ed.apply()
    if not c["body_is_block"]:
        body = "{ " + body + " }"      # an expression-bodied closure `|x| e` means `|x| { e }`
    if pre_lets:
        body = "{ " + " ".join(pre_lets) + " " + body + " }"
        fired.append("R2")
    hdr = []
    if spec.get("requires"):
        hdr.append("    requires")
        for i, cl in enumerate(spec["requires"]):
            tag, t = clause_tag(cl)
            hdr.append("        " + w.mark(fid, "requires", i, tag, t) + ",")
    if spec.get("ensures"):
        hdr.append("    ensures")
        for i, cl in enumerate(spec["ensures"]):
            tag, t = clause_tag(cl)
            hdr.append("        " + w.mark(fid, "ensures", i, tag, t) + ",")
    sig = f"pub fn {spec['name']}{spec.get('generics', '')}({', '.join(spec['params'])})" + (f" -> ({spec['ret']})" if spec.get("ret") else "")
    text = sig + "\n" + "\n".join(hdr) + "\n" + body
    fired.append("R5")
    for p in spec.get("patch", []):
        text = apply_patch(text, p, fired, spec["path"])
    for h in spec.get("hint", []):
        anchor = h.get("after") or h.get("before")
        if text.count(anchor) != 1:
            raise Undecided(f"W5 hint anchor {anchor!r} occurs {text.count(anchor)} times in closure {k} of {spec['path']}")
        pos = text.find(anchor) + (len(anchor) if h.get("after") else 0)
        htext = h["text"]
        if h.get("tag") == "auxiliary" or ("props" in h and w.prop not in h["props"]):
            htext = "\n".join(l + " /*@aux-hint*/" for l in htext.split("\n"))
        text = text[:pos] + "\n" + htext + "\n" + text[pos:]
        fired.append("W5")
    orig = src[c["span"][0]:c["span"][1]].decode("utf-8")
    rec = record({"path": spec["path"] + f"#closure{k}", "kind": "closure", "file": it["file"], "span": c["span"], "impl_trait": it.get("impl_trait")}, orig, text, fired)
    w.records.append(rec)
    return text, it


def strip_inner_attrs(text, keep=()):
    """Remove `#[...]` attributes (balanced) and `///` doc lines inside an item body."""
    out = []
    i = 0
    n = len(text)
    while i < n:
        if text.startswith("///", i) or text.startswith("//!", i):
            j = text.find("\n", i)
            j = n if j < 0 else j
            i = j
            continue
        if text.startswith("//", i):
            j = text.find("\n", i)
            j = n if j < 0 else j
            out.append(text[i:j])
            i = j
            continue
        if text.startswith("#[", i) and not text.startswith("#[derive", i) and not any(text.startswith("#[" + k, i) for k in keep):
            d = 0
            j = i + 1
            while j < n:
                if text[j] == "[":
                    d += 1
                elif text[j] == "]":
                    d -= 1
                    if d == 0:
                        break
                elif text[j] == '"':
                    j += 1
                    while text[j] != '"':
                        if text[j] == "\\":
                            j += 1
                        j += 1
                j += 1
            i = j + 1
            continue
        out.append(text[i])
        i += 1
    return "".join(out)


def ensure_pub(text, kind):
    """D3 for items with inherited (private) visibility: make the item itself `pub`."""
    kw = {"struct": "struct", "enum": "enum", "const": "const", "static": "static", "type": "type"}.get(kind)
    if not kw:
        return text
    m = re.search(r"(?m)^([ \t]*)((?:pub(?:\([^)]*\))?\s+)?)" + kw + r"\b", text)
    if m and not m.group(2):
        return text[:m.start(2)] + "pub " + text[m.start(2):]
    return text


def split_typed_pat(ptxt):
    d = 0
    for i, ch in enumerate(ptxt):
        if ch in "([{<":
            d += 1
        elif ch in ")]}>":
            d -= 1
        elif ch == ":" and d == 0 and not ptxt.startswith("::", i) and (i == 0 or ptxt[i - 1] != ":"):
            return ptxt[:i].strip(), ptxt[i + 1:].strip()
    raise Undecided(f"R2: cannot split typed closure parameter {ptxt!r}")


def split_top_commas(s):
    parts = []
    d = 0
    cur = []
    i = 0
    while i < len(s):
        ch = s[i]
        if ch == '"':
            j = i + 1
            while s[j] != '"':
                if s[j] == "\\":
                    j += 1
                j += 1
            cur.append(s[i:j + 1])
            i = j + 1
            continue
        if ch in "([{":
            d += 1
        elif ch in ")]}":
            d -= 1
        if ch == "," and d == 0:
            parts.append("".join(cur).strip())
            cur = []
        else:
            cur.append(ch)
        i += 1
    if "".join(cur).strip():
        parts.append("".join(cur).strip())
    return parts


def rewrite_assert(txt, nm):
    """R1: runtime assertion -> static assert (proved never to fire). Message arguments are dropped."""
    m = re.match(r"(?s)\s*(?:[a-z_:]*)?" + nm + r"\s*!\s*[\(\[\{](.*)[\)\]\}]\s*(;?)\s*$", txt)
    if not m:
        raise Undecided(f"R1: cannot parse {txt[:60]!r}")
    args = split_top_commas(m.group(1))
    semi = m.group(2) or ""
    if nm.endswith("_eq"):
        return f"assert(({args[0]}) == ({args[1]})){semi}"
    if nm.endswith("_ne"):
        return f"assert(({args[0]}) != ({args[1]})){semi}"
    return f"assert({args[0]}){semi}"


def split_top(text, sep):
    """Split `text` at top-level occurrences of the single character `sep` (not inside (), [], {}, <> is NOT tracked; `||` is skipped)."""
    out, depth, cur, i = [], 0, "", 0
    while i < len(text):
        ch = text[i]
        if ch in "([{":
            depth += 1
        elif ch in ")]}":
            depth -= 1
        if ch == sep and depth == 0 and not (i + 1 < len(text) and text[i + 1] == sep) and not (i > 0 and text[i - 1] == sep):
            out.append(cur); cur = ""
        else:
            cur += ch
        i += 1
    out.append(cur)
    return out


def rewrite_matches_or_guard(txt):
    """D5b: `matches!(E, P1 | P2 if G)` (an or-pattern with a guard: rejected by Verus) -> `(matches!(E, P1 if G) || matches!(E, P2 if G))`.
    Rust requires every alternative to bind the same names, so the guard means the same under each. Returns None when not applicable."""
    m = re.match(r"(?s)matches\s*!\s*\((.*)\)\s*$", txt)
    if not m:
        return None
    args = split_top(m.group(1), ",")
    if len(args) < 2:
        return None
    expr, rest = args[0], ",".join(args[1:]).strip().rstrip(",").strip()
    mg = re.match(r"(?s)(.*?)\bif\b(.*)$", rest)
    if not mg:
        return None
    pats, guard = mg.group(1).strip(), mg.group(2).strip()
    alts = [a.strip() for a in split_top(pats, "|") if a.strip()]
    if len(alts) < 2:
        return None
    return "(" + " || ".join(f"matches!({expr.strip()}, {a} if {guard})" for a in alts) + ")"


def apply_patch(text, p, fired, where):
    old, new = p["old"], p["new"]
    cnt = p.get("count", 1)
    if p.get("optional") and old not in text and not p.get("flex") and not p.get("regex"):
        return text     # a redirect of a construct that may or may not be present (e.g. one `X.into()` per listed class)
    if p.get("regex"):
        # `old` is a regular expression, `new` may use its groups: for redirects whose argument text is the code's own (kept verbatim)
        rx = re.compile(old)
        n = len(rx.findall(text))
        if n == 0 and p.get("optional"):
            return text
        if (cnt == "any" and n == 0) or (cnt != "any" and n != cnt):
            raise Undecided(f"{p.get('rule', 'R4')} patch anchor /{old}/ occurs {n} times in {where}, expected {cnt}")
        fired.append(p.get("rule", "R4"))
        return rx.sub(new, text)
    if p.get("flex"):
        # whitespace-flexible anchor: any run of whitespace and line comments (or none) between the anchor's tokens matches
        rx = re.compile(r"(?:\s|//[^\n]*\n)*".join(re.escape(tok) for tok in old.split()))
        n = len(rx.findall(text))
        if n == 0 and p.get("optional"):
            return text
        if "nth" in p:
            ms = list(rx.finditer(text))
            if len(ms) <= p["nth"]:
                raise Undecided(f"{p.get('rule', 'R4')} patch anchor {old!r} (flex) has no occurrence #{p['nth']} in {where}")
            m = ms[p["nth"]]
            fired.append(p.get("rule", "R4"))
            return text[:m.start()] + new + text[m.end():]
        if (cnt == "any" and n == 0) or (cnt != "any" and n != cnt):
            raise Undecided(f"{p.get('rule', 'R4')} patch anchor {old!r} (flex) occurs {n} times in {where}, expected {cnt}")
        fired.append(p.get("rule", "R4"))
        return rx.sub(lambda m: new, text)
    if "nth" in p:
        # replace only the nth occurrence (0-based); the anchor must occur at least nth+1 times
        k, pos = p["nth"], -1
        for _ in range(k + 1):
            pos = text.find(old, pos + 1)
            if pos < 0:
                raise Undecided(f"{p.get('rule', 'R4')} patch anchor {old!r} has no occurrence #{k} in {where}")
        fired.append(p.get("rule", "R4"))
        return text[:pos] + new + text[pos + len(old):]
    n = text.count(old)
    if cnt == "any":
        if n == 0:
            raise Undecided(f"{p.get('rule', 'R4')} patch anchor {old!r} does not occur in {where}")
    elif n != cnt:
        raise Undecided(f"{p.get('rule', 'R4')} patch anchor {old!r} occurs {n} times in {where}, expected {cnt}")
    fired.append(p.get("rule", "R4"))
    return text.replace(old, new)


def record(it, orig, emitted, fired):
    rules = {}
    for r in fired:
        rules[r] = rules.get(r, 0) + 1
    diff = list(difflib.unified_diff(orig.splitlines(), emitted.splitlines(), "repo", "emitted", lineterm="", n=0))
    return {
        "path": it["path"],
        "trait": it.get("impl_trait"),
        "kind": it["kind"],
        "file": os.path.relpath(it["file"], REPO),
        "span": it["span"],
        "sha256": sha(orig),
        "rules_fired": rules,
        "diff_lines": len(diff),
        "diff": diff,
    }
