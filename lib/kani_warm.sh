#!/bin/sh
cd "$(dirname "$0")/.." && python3 lib/kani_route.py --warm
