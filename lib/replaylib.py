"""Replay files: written on VIOLATION; `./check Cnn --replay f` re-decides the named obligation on the current tree."""
import json
import os
import re
import subprocess
import sys

from kv import VERIF, REPO


REPLAY_DIR = os.environ.get("VERIF_REPLAY_DIR", os.path.join(VERIF, "replay"))


def safe(s):
    return re.sub(r"[^A-Za-z0-9_.-]+", "_", s)[:120]


def write_replay(prop, unit, r, f, tier):
    path = os.path.join(REPLAY_DIR, f"{prop}-{safe(unit)}-{safe(f['obligation'])}.json")
    doc = {
        "property": prop,
        "unit": unit,
        "sidecar": r.get("sidecar"),
        "backend": r.get("backend", "verus"),
        "obligation": f["obligation"],
        "verdict": f["message"],
        "clause": f.get("clause"),
        "failing_site": {"line_in_emitted_unit": f.get("site_line"), "text": f.get("site_text"), "function": f.get("fn")},
        "verifier_cmd": r.get("cmd"),
        "verifier_output": f.get("rendered"),
        "emitted_unit": r.get("emitted"),
        "counterexample": f.get("counterexample"),
        "replay_test": f.get("replay_test"),
        "observed_output": f.get("replay_output"),
        "functions": [{"path": x["path"], "file": x["file"], "sha256": x["sha256"]} for x in r.get("records", []) if "sha256" in x],
        "note": None if f.get("counterexample") else "no-failing-input-found: the verifier gives no model for this obligation; the obligation passed on the pinned tree and fails on this one",
    }
    with open(path, "w") as fh:
        json.dump(doc, fh, indent=1)
    return path


def replay(prop, path):
    with open(path) as fh:
        doc = json.load(fh)
    rt = doc.get("replay_test")
    if rt:
        import kani_route
        rc, out = kani_route.run_replay_test(rt)
        print(out[-3000:])
        if rc != 0:
            print(f"REPLAY property={prop} obligation={doc['obligation']} still fails on the real code")
            return 1
        print(f"REPLAY property={prop} obligation={doc['obligation']} passes now")
        return 0
    # no concrete input: re-decide the obligation on the current tree
    p = subprocess.run([os.path.join(VERIF, "check"), prop, "--unit", doc["unit"]], capture_output=True, text=True)
    sys.stdout.write(p.stdout)
    if doc["obligation"] in p.stdout and "VIOLATION" in p.stdout:
        print(f"REPLAY property={prop} obligation={doc['obligation']} still fails")
        return 1
    return 0 if p.returncode == 0 else p.returncode
