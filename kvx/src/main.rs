//! kvx — index Rust sources with `syn` and report byte spans of items and of the
//! anchors inside function bodies that the weaver needs (signature end, return type,
//! loops, closures, macro invocations, let bindings, attributes, visibilities).
//!
//! It does not rewrite anything: the Python driver (`/verif/lib/weave.py`) copies the
//! source text byte-for-byte and applies only the documented edits at these offsets.
//!
//! usage: kvx index <file-or-dir>...      -> JSON on stdout
use proc_macro2::Span;
use quote::ToTokens;
use serde_json::{json, Value};
use std::path::{Path, PathBuf};
use syn::spanned::Spanned;
use syn::visit::{self, Visit};

fn rng(s: Span) -> Value {
    let r = s.byte_range();
    json!([r.start, r.end])
}
fn start(s: Span) -> usize {
    s.byte_range().start
}
fn end(s: Span) -> usize {
    s.byte_range().end
}
fn ts<T: ToTokens>(t: &T) -> String {
    let s = t.to_token_stream().to_string();
    s.split_whitespace().collect::<Vec<_>>().join("")
}
fn type_key(t: &syn::Type) -> String {
    match t {
        syn::Type::Path(p) => p
            .path
            .segments
            .last()
            .map(|s| s.ident.to_string())
            .unwrap_or_else(|| ts(t)),
        syn::Type::Reference(r) => type_key(&r.elem),
        syn::Type::Paren(r) => type_key(&r.elem),
        syn::Type::Group(r) => type_key(&r.elem),
        _ => ts(t),
    }
}

fn attrs_json(attrs: &[syn::Attribute]) -> Value {
    Value::Array(
        attrs
            .iter()
            .map(|a| {
                json!({
                    "path": ts(a.path()),
                    "span": rng(a.span()),
                    "inner": matches!(a.style, syn::AttrStyle::Inner(_)),
                    "text": ts(&a.meta),
                })
            })
            .collect(),
    )
}

/// Collect visibility spans anywhere in an item (item itself + fields).
struct VisCollector {
    out: Vec<Value>,
}
impl<'ast> Visit<'ast> for VisCollector {
    fn visit_visibility(&mut self, v: &'ast syn::Visibility) {
        match v {
            syn::Visibility::Inherited => {}
            _ => self.out.push(rng(v.span())),
        }
    }
    fn visit_block(&mut self, _b: &'ast syn::Block) { /* do not descend into bodies */
    }
}

struct BodyWalker {
    loops: Vec<Value>,
    closures: Vec<Value>,
    macros: Vec<Value>,
    lets: Vec<Value>,
    nested_fns: Vec<Value>,
    attrs: Vec<Value>,
    awaits: Vec<Value>,
    span_scopes: Vec<Value>,
    or_guard_arms: Vec<Value>,
    closure_depth: usize,
}
impl BodyWalker {
    fn new() -> Self {
        BodyWalker {
            loops: vec![],
            closures: vec![],
            macros: vec![],
            lets: vec![],
            nested_fns: vec![],
            attrs: vec![],
            awaits: vec![],
            span_scopes: vec![],
            or_guard_arms: vec![],
            closure_depth: 0,
        }
    }
    fn mac(&mut self, m: &syn::Macro, whole: Span, stmt: bool, semi: bool) {
        let name = m
            .path
            .segments
            .last()
            .map(|s| s.ident.to_string())
            .unwrap_or_default();
        let toks = m.tokens.to_string();
        self.macros.push(json!({
            "name": name,
            "path": ts(&m.path),
            "span": rng(whole),
            "stmt": stmt,
            "semi": semi,
            "has_mut_borrow": toks.contains("& mut") || toks.contains("&mut"),
            "in_closure": self.closure_depth > 0,
        }));
    }
}
fn pat_simple_ident(p: &syn::Pat) -> Option<String> {
    match p {
        syn::Pat::Ident(i) if i.subpat.is_none() && i.by_ref.is_none() => Some(i.ident.to_string()),
        syn::Pat::Type(t) => pat_simple_ident(&t.pat),
        _ => None,
    }
}
fn pat_idents(p: &syn::Pat, out: &mut Vec<String>) {
    struct V<'a>(&'a mut Vec<String>);
    impl<'ast, 'a> Visit<'ast> for V<'a> {
        fn visit_pat_ident(&mut self, i: &'ast syn::PatIdent) {
            self.0.push(i.ident.to_string());
            visit::visit_pat_ident(self, i);
        }
    }
    V(out).visit_pat(p);
}
impl<'ast> Visit<'ast> for BodyWalker {
    fn visit_item_fn(&mut self, f: &'ast syn::ItemFn) {
        self.nested_fns.push(json!({"name": f.sig.ident.to_string(), "span": rng(f.span())}));
        // do not descend
    }
    fn visit_attribute(&mut self, a: &'ast syn::Attribute) {
        self.attrs.push(json!({"path": ts(a.path()), "span": rng(a.span())}));
    }
    fn visit_expr_await(&mut self, e: &'ast syn::ExprAwait) {
        // the `.await` suffix itself: from the dot to the end of the keyword
        self.awaits.push(json!({"span": [start(e.dot_token.span()), end(e.await_token.span())], "in_closure": self.closure_depth > 0}));
        visit::visit_expr_await(self, e);
    }
    fn visit_expr_for_loop(&mut self, e: &'ast syn::ExprForLoop) {
        // guard-continue statements at the top level of the body: `if C { continue; }` (no else, nothing else in the block)
        let mut guards: Vec<Value> = vec![];
        for st in e.body.stmts.iter() {
            if let syn::Stmt::Expr(syn::Expr::If(ifx), _) = st {
                if ifx.else_branch.is_none() && ifx.then_branch.stmts.len() == 1 {
                    if let syn::Stmt::Expr(syn::Expr::Continue(c), _) = &ifx.then_branch.stmts[0] {
                        if c.label.is_none() {
                            guards.push(json!({"stmt": rng(st.span()), "cond": rng(ifx.cond.span())}));
                        }
                    }
                }
            }
        }
        // every `continue` that targets this loop (not inside a nested loop or closure)
        struct CC(usize);
        impl<'a> Visit<'a> for CC {
            fn visit_expr_continue(&mut self, _c: &'a syn::ExprContinue) { self.0 += 1; }
            fn visit_expr_for_loop(&mut self, _e: &'a syn::ExprForLoop) {}
            fn visit_expr_while(&mut self, _e: &'a syn::ExprWhile) {}
            fn visit_expr_loop(&mut self, _e: &'a syn::ExprLoop) {}
            fn visit_expr_closure(&mut self, _e: &'a syn::ExprClosure) {}
        }
        let mut cc = CC(0);
        cc.visit_block(&e.body);
        // statement-form `continue;` anywhere in the body (nested blocks, not nested loops/closures), each with the spans of the
        // statements that follow its enclosing statement in every enclosing block up to the loop body (for the D8b flag form)
        struct FC<'a> { stack: Vec<(&'a syn::Block, usize)>, out: Vec<Value>, other: usize }
        impl<'a> Visit<'a> for FC<'a> {
            fn visit_block(&mut self, b: &'a syn::Block) {
                for (i, st) in b.stmts.iter().enumerate() {
                    self.stack.push((b, i));
                    if let syn::Stmt::Expr(syn::Expr::Continue(c), _) = st {
                        if c.label.is_none() {
                            let mut rests: Vec<Value> = vec![];
                            for (blk, idx) in self.stack.iter() {
                                if idx + 1 < blk.stmts.len() {
                                    rests.push(json!([start(blk.stmts[idx + 1].span()), end(blk.stmts[blk.stmts.len() - 1].span())]));
                                }
                            }
                            self.out.push(json!({"kw": rng(c.span()), "rests": rests}));
                        } else { self.other += 1; }
                    } else {
                        self.visit_stmt(st);
                    }
                    self.stack.pop();
                }
            }
            fn visit_expr_continue(&mut self, _c: &'a syn::ExprContinue) { self.other += 1; }
            fn visit_expr_for_loop(&mut self, _e: &'a syn::ExprForLoop) {}
            fn visit_expr_while(&mut self, _e: &'a syn::ExprWhile) {}
            fn visit_expr_loop(&mut self, _e: &'a syn::ExprLoop) {}
            fn visit_expr_closure(&mut self, _e: &'a syn::ExprClosure) {}
        }
        let mut fc = FC { stack: vec![], out: vec![], other: 0 };
        fc.visit_block(&e.body);
        let flag_continues = if fc.other == 0 { fc.out } else { vec![] };
        self.loops.push(json!({
            "kind": "for",
            "guard_continues": guards,
            "continues": cc.0,
            "flag_continues": flag_continues,
            "kw": start(e.for_token.span()),
            "label": e.label.as_ref().map(|l| l.name.ident.to_string()),
            "pat": rng(e.pat.span()),
            "expr": rng(e.expr.span()),
            "body_open": start(e.body.brace_token.span.open()),
            "body_close": end(e.body.brace_token.span.close()),
            "span": rng(e.span()),
        }));
        visit::visit_expr_for_loop(self, e);
    }
    fn visit_expr_while(&mut self, e: &'ast syn::ExprWhile) {
        self.loops.push(json!({
            "kind": "while",
            "kw": start(e.while_token.span()),
            "label": e.label.as_ref().map(|l| l.name.ident.to_string()),
            "expr": rng(e.cond.span()),
            "body_open": start(e.body.brace_token.span.open()),
            "body_close": end(e.body.brace_token.span.close()),
            "span": rng(e.span()),
        }));
        visit::visit_expr_while(self, e);
    }
    fn visit_expr_loop(&mut self, e: &'ast syn::ExprLoop) {
        self.loops.push(json!({
            "kind": "loop",
            "kw": start(e.loop_token.span()),
            "label": e.label.as_ref().map(|l| l.name.ident.to_string()),
            "body_open": start(e.body.brace_token.span.open()),
            "body_close": end(e.body.brace_token.span.close()),
            "span": rng(e.span()),
        }));
        visit::visit_expr_loop(self, e);
    }
    fn visit_expr_closure(&mut self, c: &'ast syn::ExprClosure) {
        let inputs: Vec<Value> = c
            .inputs
            .iter()
            .map(|p| {
                let mut ids = vec![];
                pat_idents(p, &mut ids);
                json!({
                    "span": rng(p.span()),
                    "simple": pat_simple_ident(p),
                    "typed": matches!(p, syn::Pat::Type(_)),
                    "idents": ids,
                })
            })
            .collect();
        let (ret, has_ret) = match &c.output {
            syn::ReturnType::Default => (Value::Null, false),
            syn::ReturnType::Type(_, t) => (rng(t.span()), true),
        };
        self.closures.push(json!({
            "span": rng(c.span()),
            "or1": rng(c.or1_token.span()),
            "or2": rng(c.or2_token.span()),
            "inputs": inputs,
            "ret": ret,
            "has_ret": has_ret,
            "body": rng(c.body.span()),
            "body_is_block": matches!(&*c.body, syn::Expr::Block(_)),
            "is_move": c.capture.is_some(),
        }));
        self.closure_depth += 1;
        visit::visit_expr_closure(self, c);
        self.closure_depth -= 1;
    }
    fn visit_stmt(&mut self, s: &'ast syn::Stmt) {
        match s {
            syn::Stmt::Macro(m) => {
                self.mac(&m.mac, m.span(), true, m.semi_token.is_some());
                for a in &m.attrs {
                    self.visit_attribute(a);
                }
            }
            syn::Stmt::Expr(syn::Expr::Macro(m), semi) => {
                let sp = match semi {
                    Some(t) => m.span().join(t.span()).unwrap_or(m.span()),
                    None => m.span(),
                };
                self.mac(&m.mac, sp, true, semi.is_some());
            }
            _ => visit::visit_stmt(self, s),
        }
    }
    fn visit_expr_macro(&mut self, m: &'ast syn::ExprMacro) {
        self.mac(&m.mac, m.span(), false, false);
    }
    fn visit_expr_method_call(&mut self, e: &'ast syn::ExprMethodCall) {
        // `<span macro>!(..).in_scope(|| BODY)`: tracing::Span::in_scope runs the closure inside the span and returns its value
        if e.method == "in_scope" && e.args.len() == 1 {
            if let (syn::Expr::Macro(m), Some(syn::Expr::Closure(c))) = (&*e.receiver, e.args.first()) {
                let name = m.mac.path.segments.last().map(|s| s.ident.to_string()).unwrap_or_default();
                if c.inputs.is_empty() && name.ends_with("_span") {
                    self.span_scopes.push(json!({"span": rng(e.span()), "body": rng(c.body.span()), "macro": name}));
                    // descend into the body only: the macro itself is dropped together with the wrapper
                    self.closure_depth += 1;
                    visit::visit_expr(self, &c.body);
                    self.closure_depth -= 1;
                    return;
                }
            }
        }
        visit::visit_expr_method_call(self, e);
    }
    fn visit_arm(&mut self, a: &'ast syn::Arm) {
        // a match arm `P1 | P2 if G => ..` (top-level or-pattern together with a guard): outside the Verus dialect; indexed for D5
        if let (syn::Pat::Or(po), Some((_, g))) = (&a.pat, &a.guard) {
            let mut ids = vec![];
            pat_idents(&a.pat, &mut ids);
            self.or_guard_arms.push(json!({"pat": rng(po.span()), "guard": rng(g.span()), "binds": ids, "in_closure": self.closure_depth > 0}));
        }
        visit::visit_arm(self, a);
    }
    fn visit_local(&mut self, l: &'ast syn::Local) {
        let mut ids = vec![];
        pat_idents(&l.pat, &mut ids);
        self.lets.push(json!({"idents": ids, "span": rng(l.span())}));
        visit::visit_local(self, l);
    }
}

struct Indexer {
    mods: Vec<String>,
    impl_ctx: Option<(String, Option<String>, usize)>, // self key, trait string, impl ordinal
    items: Vec<Value>,
    impl_count: usize,
    cfg_test_depth: usize,
}

fn has_cfg_test(attrs: &[syn::Attribute]) -> bool {
    attrs.iter().any(|a| {
        a.path().is_ident("cfg") && {
            let t = ts(&a.meta);
            t.contains("test")
        }
    })
}

// an item compiled only for tests: `#[cfg(test)]` (but not `#[cfg(not(test))]`)
fn is_cfg_test_only(attrs: &[syn::Attribute]) -> bool {
    attrs.iter().any(|a| {
        a.path().is_ident("cfg") && {
            let t: String = ts(&a.meta).chars().filter(|c| !c.is_whitespace()).collect();
            t.contains("test") && !t.contains("not(test")
        }
    })
}

impl Indexer {
    fn fn_json(
        &self,
        attrs: &[syn::Attribute],
        vis: Option<&syn::Visibility>,
        sig: &syn::Signature,
        block: Option<&syn::Block>,
        whole: Span,
        kind: &str,
    ) -> Value {
        let name = sig.ident.to_string();
        let path = match &self.impl_ctx {
            Some((k, _, _)) => format!("{}::{}", k, name),
            None => name.clone(),
        };
        let mut v = json!({
            "kind": kind,
            "name": name,
            "path": path,
            "mods": self.mods,
            "in_test": self.cfg_test_depth > 0,
            "impl_self": self.impl_ctx.as_ref().map(|c| c.0.clone()),
            "impl_trait": self.impl_ctx.as_ref().and_then(|c| c.1.clone()),
            "impl_ord": self.impl_ctx.as_ref().map(|c| c.2),
            "span": rng(whole),
            "attrs": attrs_json(attrs),
            "vis": match vis { Some(v) if !matches!(v, syn::Visibility::Inherited) => json!([rng(v.span())]), _ => json!([]) },
            "sig_span": rng(sig.span()),
            "fn_kw": start(sig.fn_token.span()),
            "is_async": sig.asyncness.is_some(),
            "async_kw": sig.asyncness.as_ref().map(|a| rng(a.span())),
            "is_unsafe": sig.unsafety.is_some(),
            "ret": match &sig.output { syn::ReturnType::Default => Value::Null, syn::ReturnType::Type(_, t) => rng(t.span()) },
            "paren_close": end(sig.paren_token.span.close()),
            "where_span": sig.generics.where_clause.as_ref().map(|w| rng(w.span())),
            "inputs": sig.inputs.iter().map(|a| match a {
                syn::FnArg::Receiver(r) => json!({"name":"self","span":rng(r.span()), "mut_ref": r.reference.is_some() && r.mutability.is_some()}),
                syn::FnArg::Typed(t) => json!({"name": pat_simple_ident(&t.pat), "span": rng(t.span()), "ty": ts(&t.ty), "attrs": attrs_json(&t.attrs)}),
            }).collect::<Vec<_>>(),
        });
        if let Some(b) = block {
            let mut w = BodyWalker::new();
            w.visit_block(b);
            v["body_open"] = json!(start(b.brace_token.span.open()));
            // the tail expression of the body (a final expression statement without `;`), if any
            if let Some(syn::Stmt::Expr(e, None)) = b.stmts.last() {
                v["tail_expr"] = rng(e.span());
            }
            v["body_close"] = json!(end(b.brace_token.span.close()));
            v["loops"] = Value::Array(w.loops);
            v["closures"] = Value::Array(w.closures);
            v["macros"] = Value::Array(w.macros);
            v["lets"] = Value::Array(w.lets);
            v["nested_fns"] = Value::Array(w.nested_fns);
            v["body_attrs"] = Value::Array(w.attrs);
            v["awaits"] = Value::Array(w.awaits);
            v["span_scopes"] = Value::Array(w.span_scopes);
            v["or_guard_arms"] = Value::Array(w.or_guard_arms);
        }
        v
    }
    fn plain_item(&mut self, kind: &str, name: String, attrs: &[syn::Attribute], whole: Span, vis: Vec<Value>, extra: Value) {
        let mut v = json!({
            "kind": kind,
            "name": name,
            "path": name,
            "mods": self.mods,
            "in_test": self.cfg_test_depth > 0 || is_cfg_test_only(attrs),
            "span": rng(whole),
            "attrs": attrs_json(attrs),
            "vis": vis,
        });
        if let Value::Object(m) = extra {
            for (k, x) in m {
                v[k] = x;
            }
        }
        self.items.push(v);
    }
}

fn vis_of<T>(t: &T, f: impl Fn(&mut VisCollector, &T)) -> Vec<Value> {
    let mut c = VisCollector { out: vec![] };
    f(&mut c, t);
    c.out
}

impl<'ast> Visit<'ast> for Indexer {
    fn visit_item_mod(&mut self, m: &'ast syn::ItemMod) {
        let t = has_cfg_test(&m.attrs);
        if t {
            self.cfg_test_depth += 1;
        }
        self.mods.push(m.ident.to_string());
        visit::visit_item_mod(self, m);
        self.mods.pop();
        if t {
            self.cfg_test_depth -= 1;
        }
    }
    fn visit_item_fn(&mut self, f: &'ast syn::ItemFn) {
        let v = self.fn_json(&f.attrs, Some(&f.vis), &f.sig, Some(&f.block), f.span(), "fn");
        self.items.push(v);
    }
    fn visit_item_impl(&mut self, i: &'ast syn::ItemImpl) {
        let key = type_key(&i.self_ty);
        let tr = i.trait_.as_ref().map(|(_, p, _)| ts(p));
        let ord = self.impl_count;
        self.impl_count += 1;
        self.items.push(json!({
            "kind": "impl",
            "name": key,
            "path": key,
            "mods": self.mods,
            "in_test": self.cfg_test_depth > 0,
            "impl_self": key,
            "impl_self_full": ts(&i.self_ty),
            "impl_trait": tr,
            "impl_ord": ord,
            "span": rng(i.span()),
            "attrs": attrs_json(&i.attrs),
            "impl_kw": start(i.impl_token.span()),
            "brace_open": start(i.brace_token.span.open()),
            "brace_close": end(i.brace_token.span.close()),
            "vis": [],
        }));
        let saved = self.impl_ctx.take();
        self.impl_ctx = Some((key, tr, ord));
        for it in &i.items {
            match it {
                syn::ImplItem::Fn(f) => {
                    let v = self.fn_json(&f.attrs, Some(&f.vis), &f.sig, Some(&f.block), f.span(), "fn");
                    self.items.push(v);
                }
                syn::ImplItem::Const(c) => {
                    let name = format!("{}::{}", self.impl_ctx.as_ref().unwrap().0, c.ident);
                    let vis = vis_of(c, |v, c| v.visit_impl_item_const(c));
                    self.plain_item("const", name, &c.attrs, c.span(), vis, json!({"impl_ord": ord}));
                }
                syn::ImplItem::Type(c) => {
                    let name = format!("{}::{}", self.impl_ctx.as_ref().unwrap().0, c.ident);
                    self.plain_item("assoc_type", name, &c.attrs, c.span(), vec![], json!({"impl_ord": ord}));
                }
                _ => {}
            }
        }
        self.impl_ctx = saved;
    }
    fn visit_item_trait(&mut self, t: &'ast syn::ItemTrait) {
        let key = t.ident.to_string();
        let ord = self.impl_count;
        self.impl_count += 1;
        self.items.push(json!({
            "kind": "trait",
            "name": key,
            "path": key,
            "mods": self.mods,
            "in_test": self.cfg_test_depth > 0,
            "impl_ord": ord,
            "span": rng(t.span()),
            "attrs": attrs_json(&t.attrs),
            "brace_open": start(t.brace_token.span.open()),
            "brace_close": end(t.brace_token.span.close()),
            "vis": vis_of(t, |v, t| v.visit_visibility(&t.vis)),
        }));
        let saved = self.impl_ctx.take();
        self.impl_ctx = Some((key, None, ord));
        for it in &t.items {
            if let syn::TraitItem::Fn(f) = it {
                let v = self.fn_json(&f.attrs, None, &f.sig, f.default.as_ref(), f.span(), "fn");
                self.items.push(v);
            }
        }
        self.impl_ctx = saved;
    }
    fn visit_item_struct(&mut self, s: &'ast syn::ItemStruct) {
        let vis = vis_of(s, |v, s| v.visit_item_struct(s));
        // D3: fields with inherited (private) visibility — position where `pub ` is inserted
        let priv_fields: Vec<Value> = s
            .fields
            .iter()
            .filter(|f| matches!(f.vis, syn::Visibility::Inherited))
            .map(|f| match &f.ident {
                Some(i) => json!(start(i.span())),
                None => json!(start(f.ty.span())),
            })
            .collect();
        self.plain_item("struct", s.ident.to_string(), &s.attrs, s.span(), vis, json!({"private_fields": priv_fields}));
    }
    fn visit_item_enum(&mut self, s: &'ast syn::ItemEnum) {
        let vis = vis_of(s, |v, s| v.visit_item_enum(s));
        let variants: Vec<Value> = s
            .variants
            .iter()
            .map(|v| json!({"name": v.ident.to_string(), "span": rng(v.span()), "attrs": attrs_json(&v.attrs)}))
            .collect();
        self.plain_item("enum", s.ident.to_string(), &s.attrs, s.span(), vis, json!({"variants": variants}));
    }
    fn visit_item_const(&mut self, s: &'ast syn::ItemConst) {
        let vis = vis_of(s, |v, s| v.visit_visibility(&s.vis));
        self.plain_item("const", s.ident.to_string(), &s.attrs, s.span(), vis, json!({"ty": ts(&s.ty), "expr": rng(s.expr.span())}));
    }
    fn visit_item_static(&mut self, s: &'ast syn::ItemStatic) {
        let vis = vis_of(s, |v, s| v.visit_visibility(&s.vis));
        self.plain_item("static", s.ident.to_string(), &s.attrs, s.span(), vis, json!({"ty": ts(&s.ty), "expr": rng(s.expr.span())}));
    }
    fn visit_item_type(&mut self, s: &'ast syn::ItemType) {
        let vis = vis_of(s, |v, s| v.visit_visibility(&s.vis));
        self.plain_item("type", s.ident.to_string(), &s.attrs, s.span(), vis, json!({}));
    }
    fn visit_item_macro(&mut self, m: &'ast syn::ItemMacro) {
        // e.g. lazy_static! { ... } — recorded so the driver can find statics defined through macros
        let name = m.mac.path.segments.last().map(|s| s.ident.to_string()).unwrap_or_default();
        self.plain_item("item_macro", name, &m.attrs, m.span(), vec![], json!({}));
    }
}

fn collect(p: &Path, out: &mut Vec<PathBuf>) {
    if p.is_dir() {
        let mut es: Vec<_> = std::fs::read_dir(p).map(|r| r.filter_map(|e| e.ok()).map(|e| e.path()).collect()).unwrap_or_default();
        es.sort();
        for e in es {
            if e.is_dir() {
                if e.file_name().map(|n| n == "target").unwrap_or(false) {
                    continue;
                }
                collect(&e, out);
            } else if e.extension().map(|x| x == "rs").unwrap_or(false) {
                out.push(e);
            }
        }
    } else {
        out.push(p.to_path_buf());
    }
}

fn main() {
    let args: Vec<String> = std::env::args().collect();
    if args.len() < 3 || args[1] != "index" {
        eprintln!("usage: kvx index <file-or-dir>...");
        std::process::exit(2);
    }
    let mut files = vec![];
    for a in &args[2..] {
        collect(Path::new(a), &mut files);
    }
    let mut out = vec![];
    for f in files {
        let src = match std::fs::read_to_string(&f) {
            Ok(s) => s,
            Err(e) => {
                out.push(json!({"file": f.to_string_lossy(), "error": format!("read: {e}"), "items": []}));
                continue;
            }
        };
        match syn::parse_file(&src) {
            Ok(ast) => {
                let mut ix = Indexer { mods: vec![], impl_ctx: None, items: vec![], impl_count: 0, cfg_test_depth: 0 };
                ix.visit_file(&ast);
                out.push(json!({"file": f.to_string_lossy(), "error": Value::Null, "len": src.len(), "items": ix.items}));
            }
            Err(e) => {
                out.push(json!({"file": f.to_string_lossy(), "error": format!("parse: {e}"), "items": []}));
            }
        }
    }
    println!("{}", serde_json::to_string(&json!({"files": out})).unwrap());
}
